"""Shared plumbing: result accumulator, digests, sub-seeds, coverage probe, watchdog."""

from __future__ import annotations

import hashlib
import inspect
import json
import os
import random
import signal
import sys
import time
import traceback

from . import REPO

MAX_VIOLATIONS_KEPT = 12
MAX_DIGESTS = 60000
MAX_SAMPLES = 4


def h64(obj) -> int:
    s = json.dumps(obj, sort_keys=True, default=repr, separators=(",", ":"))
    return int.from_bytes(hashlib.blake2b(s.encode(), digest_size=8).digest(), "big")


def subseed(seed: int, *parts) -> int:
    s = json.dumps([seed, *parts], default=repr)
    return int.from_bytes(hashlib.sha256(s.encode()).digest()[:8], "big")


def rng_for(seed: int, *parts) -> random.Random:
    return random.Random(subseed(seed, *parts))


class CaseTimeout(BaseException):
    pass


class Violation(Exception):
    """Raised by oracles; carries a message and optional details."""

    def __init__(self, msg, **details):
        super().__init__(msg)
        self.msg = msg
        self.details = details


class Result:
    """What one shard observed."""

    def __init__(self):
        self.evaluations = 0
        self.digests: set[int] = set()
        self.digests_dropped = 0
        self.violations: list[dict] = []
        self.n_violations = 0
        self.known: dict[str, int] = {}
        self.known_samples: dict[str, dict] = {}
        self.inconclusive: list[str] = []
        self.counters: dict[str, int] = {}
        self.samples: list = []
        self.lines: dict[str, list[int]] = {}
        self.wall = 0.0
        self.sets: dict[str, set] = {}  # named sets of small hashes: "how many distinct X did the monitors see"

    # -- recording -------------------------------------------------------
    def count(self, key: str, n: int = 1):
        self.counters[key] = self.counters.get(key, 0) + n

    def observe(self, name: str, obj, cap: int = 40000):
        st = self.sets.setdefault(name, set())
        if len(st) < cap:
            st.add(h64(obj) & 0xFFFFFFFFFF)

    def case(self, case, *, nontrivial: bool, digest=None):
        """Register one evaluated case."""
        self.evaluations += 1
        if nontrivial:
            d = h64(case if digest is None else digest)
            if len(self.digests) < MAX_DIGESTS:
                self.digests.add(d)
            else:
                self.digests_dropped += 1
        if len(self.samples) < MAX_SAMPLES and nontrivial:
            self.samples.append(case)

    def violation(self, case, msg: str, **details):
        self.n_violations += 1
        if len(self.violations) < MAX_VIOLATIONS_KEPT:
            self.violations.append({"case": case, "msg": msg, "details": _jsonable(details)})

    def known_finding(self, key: str, case=None):
        self.known[key] = self.known.get(key, 0) + 1
        if key not in self.known_samples and case is not None:
            self.known_samples[key] = case

    def inconc(self, reason: str):
        if reason not in self.inconclusive and len(self.inconclusive) < 50:
            self.inconclusive.append(reason)

    # -- (de)serialisation -----------------------------------------------
    def to_json(self) -> dict:
        return {
            "evaluations": self.evaluations,
            "digests": sorted(self.digests),
            "digests_dropped": self.digests_dropped,
            "violations": self.violations,
            "n_violations": self.n_violations,
            "known": self.known,
            "known_samples": _jsonable(self.known_samples),
            "inconclusive": self.inconclusive,
            "counters": self.counters,
            "samples": _jsonable(self.samples),
            "lines": self.lines,
            "wall": self.wall,
            "sets": {k: sorted(v) for k, v in self.sets.items()},
        }

    def merge_json(self, d: dict):
        self.evaluations += d["evaluations"]
        self.digests.update(d["digests"])
        self.digests_dropped += d.get("digests_dropped", 0)
        for v in d["violations"]:
            if len(self.violations) < MAX_VIOLATIONS_KEPT:
                self.violations.append(v)
        self.n_violations += d["n_violations"]
        for k, n in d["known"].items():
            self.known[k] = self.known.get(k, 0) + n
        for k, c in d.get("known_samples", {}).items():
            self.known_samples.setdefault(k, c)
        for r in d["inconclusive"]:
            self.inconc(r)
        for k, n in d["counters"].items():
            self.counters[k] = self.counters.get(k, 0) + n
        for s in d["samples"]:
            if len(self.samples) < MAX_SAMPLES:
                self.samples.append(s)
        for f, ls in d.get("lines", {}).items():
            cur = set(self.lines.get(f, ()))
            cur.update(ls)
            self.lines[f] = sorted(cur)
        self.wall += d.get("wall", 0.0)
        for k, v in d.get("sets", {}).items():
            self.sets.setdefault(k, set()).update(v)


def _jsonable(o):
    try:
        json.dumps(o)
        return o
    except (TypeError, ValueError):
        if isinstance(o, dict):
            return {str(k): _jsonable(v) for k, v in o.items()}
        if isinstance(o, (list, tuple, set, frozenset)):
            return [_jsonable(v) for v in o]
        return repr(o)


# ---------------------------------------------------------------------------
# per-case watchdog (main thread only).  A firing watchdog is INCONCLUSIVE.
# ---------------------------------------------------------------------------
class case_deadline:
    def __init__(self, seconds: float):
        self.seconds = seconds

    def _fire(self, signum, frame):
        raise CaseTimeout()

    def __enter__(self):
        import threading

        self.active = threading.current_thread() is threading.main_thread()
        if self.active:  # signals exist in the main thread only; elsewhere the shard's hard timeout is the watchdog
            self.old = signal.signal(signal.SIGALRM, self._fire)
            signal.setitimer(signal.ITIMER_REAL, self.seconds)
        return self

    def __exit__(self, *exc):
        if self.active:
            signal.setitimer(signal.ITIMER_REAL, 0)
            signal.signal(signal.SIGALRM, self.old)
        return False


def run_with_deep_stack(fn, *, stack_mb=512, recursion_limit=200000, timeout=600):
    """Runs fn() in a thread with a large C stack and a raised recursion limit (for trees that are deeper than the
    interpreter's default limit of about 1000 nested calls).  Returns (finished, exception or None)."""
    import sys
    import threading

    box = {}

    def target():
        try:
            fn()
        except BaseException as e:  # noqa: BLE001
            box["exc"] = e

    old_limit = sys.getrecursionlimit()
    old_stack = threading.stack_size(stack_mb * 1024 * 1024)
    try:
        sys.setrecursionlimit(recursion_limit)
        th = threading.Thread(target=target, daemon=True)
        th.start()
        th.join(timeout)
        return (not th.is_alive()), box.get("exc")
    finally:
        threading.stack_size(old_stack)
        sys.setrecursionlimit(old_limit)


# ---------------------------------------------------------------------------
# coverage probe: which lines of nutree/*.py did the workload execute?
# sys.monitoring LINE events, disabled per location after the first hit.
# ---------------------------------------------------------------------------
class CovProbe:
    def __init__(self):
        self.hits: set[tuple[str, int]] = set()
        self.prefix = os.path.join(os.path.realpath(REPO), "nutree") + os.sep
        self.on = False

    def start(self):
        mon = sys.monitoring
        self.tool = mon.COVERAGE_ID
        try:
            mon.use_tool_id(self.tool, "vmon-cov")
        except ValueError:
            return
        prefix = self.prefix
        hits = self.hits
        DISABLE = mon.DISABLE

        def on_line(code, line):
            fn = code.co_filename
            if fn.startswith(prefix):
                hits.add((fn[len(prefix):], line))
            return DISABLE

        mon.register_callback(self.tool, mon.events.LINE, on_line)
        mon.set_events(self.tool, mon.events.LINE)
        self.on = True

    def stop(self):
        if self.on:
            sys.monitoring.set_events(self.tool, 0)
            sys.monitoring.free_tool_id(self.tool)
            self.on = False

    def lines(self) -> dict[str, list[int]]:
        out: dict[str, set[int]] = {}
        for f, l in self.hits:
            out.setdefault(f, set()).add(l)
        return {f: sorted(s) for f, s in out.items()}


def mechanism_ranges(mech: list[str]) -> dict[str, tuple[str, int, int]]:
    """Resolve 'module:Qual.name' to (file below nutree/, first line, last line)."""
    import importlib

    out = {}
    for spec in mech:
        modname, qual = spec.split(":")
        mod = importlib.import_module(modname)
        obj = mod
        for part in qual.split("."):
            obj = inspect.getattr_static(obj, part) if inspect.isclass(obj) else getattr(obj, part)
            if isinstance(obj, (classmethod, staticmethod)):
                obj = obj.__func__
            if isinstance(obj, property):
                obj = obj.fget
        obj = inspect.unwrap(obj) if callable(obj) else obj
        src, first = inspect.getsourcelines(obj)
        fn = os.path.basename(inspect.getsourcefile(obj))
        out[spec] = (fn, first, first + len(src) - 1)
    return out


def now() -> float:
    return time.monotonic()


def short_tb(limit=6) -> str:
    return "".join(traceback.format_exc(limit=-abs(limit)))[-1500:]  # the innermost frames


def exc_in_library() -> bool:
    """True if the library under test is on the traceback of the exception being handled, False if the
    exception arose purely inside the harness.  A pure harness error must end INCONCLUSIVE, never as a
    violation."""
    import sys as _sys

    tb = _sys.exc_info()[2]
    last_harness = last_lib = -1
    i = 0
    lib = os.path.join(os.path.realpath(REPO), "nutree") + os.sep
    here = os.path.dirname(os.path.abspath(__file__)) + os.sep
    while tb is not None:
        fn = os.path.realpath(tb.tb_frame.f_code.co_filename)
        if fn.startswith(lib):
            last_lib = i
        elif fn.startswith(here):
            last_harness = i
        tb = tb.tb_next
        i += 1
    # library frames anywhere in the traceback: the library raised, or it invoked a harness callback with
    # something the callback (total on every input the documentation allows) could not digest
    return last_lib >= 0


def note_exc(res, bad, prefix):
    """Record the exception being handled: as a finding if the library raised it, else INCONCLUSIVE."""
    if exc_in_library():
        bad.append(prefix + short_tb())
    else:
        res.inconc("harness error: " + short_tb())
