"""History engine: drives the real tree and the reference model side by side.

After every depth-0 call (returned or raised) it
  * compares the complete observable state with the model        -> tags C04
  * checks that refused calls left the state unchanged           -> tags C13
  * checks uniqueness refusals (type, and that they happen)      -> tags C03
  * runs the structural monitors wf_graph/wf_index/wf_siblings   -> tags C01/C02/C03
A history ends at its first finding (the state has left the model).
"""

from __future__ import annotations

import dataclasses
import random

from . import model as M
from . import wf
from .core import exc_in_library, short_tb

ROOT = 0  # symbolic uid of the invisible root / the tree itself


@dataclasses.dataclass(frozen=True)
class P:
    name: str
    age: int


class Obj:
    """Plain object keyed by a guid through a calc_data_id callback."""

    def __init__(self, guid, name):
        self.guid = guid
        self.name = name

    def __repr__(self):
        return f"Obj({self.guid!r},{self.name!r})"

    def __str__(self):
        return self.name


class Weird:
    """A hashable object that claims to be equal to everything, is falsy and has length 0.  Its hash (and with the default
    rule its data_id) comes from `key`; `str()` and `repr()` differ.  Nothing in a tree may depend on `==`, truthiness or
    `len()` of the data it holds."""

    def __init__(self, key):
        self.key = key

    def __eq__(self, other):
        return True

    def __ne__(self, other):
        return False

    def __hash__(self):
        return hash(("weird", self.key))

    def __bool__(self):
        return False

    def __len__(self):
        return 0

    def __str__(self):
        return f"w-{self.key}"

    def __repr__(self):
        return f"Weird<{self.key}>"


def _obj_rule(data):
    return data.guid if isinstance(data, Obj) else hash(data)


FLAVOURS = ["str", "int", "tuple", "dc", "dw", "obj", "expl", "weird"]
IDCONF = ["default", "callback", "subclass"]


class FromDictFault(Exception):
    """raised by the history engine's from_dict mapper at a chosen item"""


class Finding:
    def __init__(self, tag, msg):
        self.tag = tag      # e.g. "C01:wf_graph"
        self.msg = msg

    @property
    def prop(self):
        return self.tag.split(":")[0]


class Session:
    valid_only = False

    def __init__(self, *, typed=False, flavour="str", idconf="default", seed=0, ext=False):
        from nutree import Tree
        from nutree.common import DictWrapper
        from nutree.typed_tree import TypedTree

        self.typed = typed
        self.flavour = flavour
        self.idconf = idconf
        self.rng = random.Random(seed)
        base = TypedTree if typed else Tree
        self.ext = ext
        default_kind = "child"
        if ext:
            # user extensions: node class with falsy leaves and a `name` of its own, tree subclass with other class defaults
            from . import gen as _gen

            X = _gen.ext_classes()
            base = X["XTypedTree"] if typed else X["XTree"]
            default_kind = "kid"
        if flavour == "obj" or idconf != "default":
            rule = _obj_rule
        else:
            rule = hash
        if idconf == "callback" or (flavour == "obj" and idconf == "default"):
            self.tree = base("t", calc_data_id=lambda tree, data: _obj_rule(data))
        elif idconf == "subclass":
            class Sub(base):
                def calc_data_id(self, data):
                    return _obj_rule(data)

            self.tree = Sub("t")
        else:
            self.tree = base("t")
        self.base_cls = base
        # wrapped dict records: the id of a wrapper is the identity of the dict *the caller passed in* (remembered here, not
        # read back from the wrapper)
        self.dw_src = {}
        self.dw_keep = []
        _plain_rule = rule

        def rule(data, _r=_plain_rule):
            src = self.dw_src.get(id(data))
            return id(src) if src is not None else _r(data)

        self.m = M.MTree(typed=typed, rule=rule, default_kind=default_kind)
        self.bind = {}       # uid -> real node
        self.tok = {}        # id(real node) -> (uid, node)  (strong refs: ids are never reused)
        self.graveyard = []  # (real node, old node_id)
        self.ever_ids = []
        self.ever_data = []
        self.log = []
        self.DW = DictWrapper
        self.dicts = [{"i": i} for i in range(4)] + [{}]  # (one record is still empty: it is the dict *object* that is wrapped)
        # (two of the keys are falsy - a primary key 0, an empty string: an id is an id)
        self.objs = [Obj(g, f"o{i}") for i, g in enumerate(["g0", 0, "g2", "", "g4", "g5"])] + [Obj("g0", "o0-twin"), Obj(0, "o1-twin")]
        self.weirds = [Weird(i) for i in range(5)] + [Weird(0)]  # the last one: another object with the hash of the first
        self.counters = {}
        self.max_nodes = 0
        self.saw_clone = False
        self.state_digests = []

    # ---------------------------------------------------------------- data
    def mkdata(self, rng=None):
        rng = rng or self.rng
        f = self.flavour
        if f in ("str", "expl"):
            return rng.choice("abcdef")
        if f == "int":
            return rng.choice([0, 1, 2, 3, True, 1.0, 2.0, 4, -1, -1.0, 2**61 + 5])  # -1 and the big one: hash differs from the value
        if f == "tuple":
            return (rng.choice([1, 2]), rng.choice("ab"))
        if f == "dc":
            return P(rng.choice("ab"), rng.choice([1, 2]))
        if f == "dw":
            d = rng.choice(self.dicts)
            w = self.DW(d)
            self.dw_src[id(w)] = d
            self.dw_keep.append(w)
            return w
        if f == "obj":
            return rng.choice(self.objs)
        if f == "weird":
            return rng.choice(self.weirds)
        raise KeyError(f)

    def mkid(self, rng=None):
        rng = rng or self.rng
        if self.flavour == "expl":
            return rng.choice(["X", "Y", 7, 8, None, 0, "", "a", "b"])  # "a", "b": an id that equals another node's *data*
        return None if rng.random() < 0.93 else rng.choice(["X", 7, 0, "", 2, "a"])

    def count(self, k, n=1):
        self.counters[k] = self.counters.get(k, 0) + n

    # ------------------------------------------------------------- observation
    def real(self, uid):
        return self.tree if uid == ROOT else self.bind[uid]

    def mnode(self, uid):
        return None if uid == ROOT else self.m.find(uid)

    def ident_snapshot(self):
        def rec(h, depth=0):
            if depth > 200:
                return "DEEP"
            return [(id(c), id(c.data), c.data_id, getattr(c, "kind", None), dict(c.meta) if c.meta else None,
                     id(c.parent), id(c.tree), c.node_id, c.is_leaf(), rec(c, depth + 1))
                    for c in h.children]

        try:
            body = rec(self.tree)
            # the order in which the index hands out the nodes of one id is free, but calls that must have no
            # effect (refused or read-only ones) may not change it
            idx = []
            seen = set()

            def ids(lst):
                for x in lst:
                    d = x[2]
                    if d is not None and d not in seen:
                        seen.add(d)
                        idx.append((repr(d), [id(n) for n in self.tree.find_all(data_id=d)], id(self.tree.find_first(data_id=d))))
                    ids(x[-1])

            ids(body)
            header = None
            if self.typed and self.flavour in ("str", "expl", "int"):
                # what a typed tree would write as the header of a saved document (the census of kinds in use) is part of what
                # a caller can observe, too
                try:
                    import io as _io
                    import json as _json

                    fp = _io.StringIO()
                    self.tree.save(fp, mapper=lambda node, data: data)
                    meta = _json.loads(fp.getvalue())["meta"]
                    header = sorted((k, repr(v)) for k, v in meta.items() if k != "$timestamp")
                except Exception as e:  # noqa: BLE001
                    header = type(e).__name__
            return (self.tree.count, body, idx, header)
        except Exception as e:
            return ("UNREADABLE", repr(e))

    def compare(self):
        """Real tree vs. model; binds newly created nodes.  Returns list of mismatches."""
        errs = []
        t = self.tree
        newly = []

        def rec(holder, mkids, rparent, path):
            rk = list(holder.children)
            if len(rk) != len(mkids):
                errs.append(f"{path}: {len(rk)} children {[str(c.data) for c in rk]}, model has {len(mkids)} {[str(c.data) for c in mkids]}")
                return
            for r, mn in zip(rk, mkids):
                if mn.uid in self.bind:
                    if self.bind[mn.uid] is not r:
                        errs.append(f"{path}: position of {mn!r} holds another node object ({r!r})")
                        continue
                else:
                    if id(r) in self.tok:
                        errs.append(f"{path}: new node {mn!r} expected, found pre-existing node {r!r}")
                        continue
                    newly.append((mn, r))
                if r.data is not mn.data:
                    errs.append(f"{path}: {r!r}.data is {r.data!r} (id {id(r.data):#x}), model expects the object {mn.data!r}")
                if r.data_id != mn.data_id:
                    errs.append(f"{path}: {r!r}.data_id={r.data_id!r}, model {mn.data_id!r}")
                if self.typed and r.kind != mn.kind:
                    errs.append(f"{path}: {r!r}.kind={r.kind!r}, model {mn.kind!r}")
                if mn.meta is M.ANY:
                    mn.meta = dict(r.meta) if r.meta else None
                elif (dict(r.meta) if r.meta else None) != (mn.meta or None):
                    errs.append(f"{path}: {r!r}.meta={r.meta!r}, model {mn.meta!r}")
                if r.parent is not rparent:
                    errs.append(f"{path}: {r!r}.parent is {r.parent!r}")
                if mn.node_id is not None and r.node_id != mn.node_id:
                    errs.append(f"{path}: {r!r}.node_id={r.node_id}, model {mn.node_id}")
                if len(errs) > 6:
                    return
                rec(r, mn.children, r, path + "/" + str(mn.data))

        try:
            rec(t, self.m.top, None, "")
        except RecursionError:
            errs.append("comparison exceeded recursion depth")
        if not errs:
            for mn, r in newly:
                self.bind[mn.uid] = r
                self.tok[id(r)] = (mn.uid, r)
        return errs

    def resync(self):
        """Adopt the real tree as the new model state (after unspecified/unfollowable calls)."""
        m = M.MTree(typed=self.typed, rule=self.m.rule, default_kind=self.m.default_kind)
        m.next_uid = self.m.next_uid
        old_tok = self.tok
        self.bind = {}
        self.tok = {}
        live = set()

        def rec(holder, out):
            for r in holder.children:
                mn = m.new(r.data, r.data_id, getattr(r, "kind", None), dict(r.meta) if r.meta else None,
                           r.node_id if r.node_id != id(r) else None)
                self.bind[mn.uid] = r
                self.tok[id(r)] = (mn.uid, r)
                live.add(id(r))
                out.append(mn)
                rec(r, mn.children)

        rec(self.tree, m.top)
        for k, (uid, r) in old_tok.items():
            if k not in live:
                self.graveyard.append((r, None))
        self.m = m

    # ----------------------------------------------------------------- executing
    def _before_real(self, before):
        if before is None or before is False or before is True:
            return before
        tag, v = before
        if tag == "idx":
            return v
        if tag == "node":
            return self.bind[v] if isinstance(v, int) else v
        if tag == "raw":
            return {"str": "garbage", "float": 3.5, "tuple": (1, 2)}[v]
        raise KeyError(before)

    def _before_model(self, before):
        if before is None or before is False or before is True:
            return before
        tag, v = before
        if tag == "node":
            return ("node", self.m.find(v))
        return before

    def execute(self, op):
        """op: dict.  Returns (outcome, ret, exc)."""
        k = op["op"]
        m = self.m
        t = self.tree
        kw = {}
        if k == "add":
            P_ = self.mnode(op["parent"])
            data = op["data"]
            if self.typed and op.get("kind") is not None and not isinstance(op["kind"], str):
                outcome = M.Refuse(M.INVALID, "kind must be a str")
            elif op.get("node_id") is not None and any(r.node_id == op["node_id"] for u, r in self.bind.items() if m.has(u)):
                outcome = M.Unspec("node_id already in use")
            else:
                outcome = m.add(P_, data, self._before_model(op.get("before")), op.get("data_id"), op.get("kind"), op.get("node_id"))
            via = op.get("via", "add")
            tgt = self.real(op["parent"])
            if self.typed and op.get("kind") is not None:
                kw["kind"] = op["kind"]
            if op.get("data_id") is not None:
                kw["data_id"] = op["data_id"]
            if op.get("node_id") is not None:
                kw["node_id"] = op["node_id"]
            if via in ("add", "add_child"):
                call = lambda: getattr(tgt, via)(data, before=self._before_real(op.get("before")), **kw)
            else:  # append_child / prepend_child (nodes only)
                call = lambda: getattr(tgt, via)(data, **kw)
        elif k == "sibling":
            n = m.find(op["node"])
            data = op["data"]
            if op["which"] == "prepend_sibling":
                outcome = m.add(m.parent_of(n), data, ("node", n), op.get("data_id"), n.kind)
            else:
                outcome = m.add_after(n, data, op.get("data_id"), n.kind)
            if op.get("data_id") is not None:
                kw["data_id"] = op["data_id"]
            call = lambda: getattr(self.bind[op["node"]], op["which"])(data, **kw)
        elif k == "addnode" and op.get("via") in ("append_sibling", "prepend_sibling", "append_child", "prepend_child"):
            # the shortcut routes with an existing node as source (a copy is placed relative to a sibling / at either end)
            src = m.find(op["src"])
            via = op["via"]
            if via.endswith("sibling"):
                sibM = m.find(op["sib"])
                P_ = m.parent_of(sibM)
                K = m.kids(P_)
                i = next(j for j, c in enumerate(K) if c is sibM)
                bm = ("node", sibM) if via == "prepend_sibling" else (("node", K[i + 1]) if i + 1 < len(K) else None)
                recv = self.bind[op["sib"]]
            else:
                P_ = self.mnode(op["parent"])
                bm = None if via == "append_child" else True
                recv = self.real(op["parent"])
            if op.get("node_id") is not None:
                kw["node_id"] = op["node_id"]
            if self.typed and op.get("kind") is not None:
                kw["kind"] = op["kind"]
            outcome = m.add_node(P_, src, bool(op.get("deep")), bm, op.get("kind") if self.typed else None, node_id=op.get("node_id"))
            call = lambda: getattr(recv, via)(self.bind[op["src"]], deep=op.get("deep"), **kw)
        elif k == "addnode":
            P_ = self.mnode(op["parent"])
            src = m.find(op["src"])
            # copy_to() has no node_id parameter: an id the generator drew for this op is simply not passed
            outcome = m.add_node(P_, src, bool(op.get("deep")), self._before_model(op.get("before")), op.get("kind"),
                                 node_id=op.get("node_id") if op.get("via") != "copy_to" else None)
            tgt = self.real(op["parent"])
            if self.typed and op.get("kind") is not None:
                kw["kind"] = op["kind"]
            if op.get("node_id") is not None:
                kw["node_id"] = op["node_id"]
            if op.get("via") == "copy_to":
                call = lambda: self.bind[op["src"]].copy_to(tgt, before=self._before_real(op.get("before")), deep=bool(op.get("deep")))
            else:
                call = lambda: tgt.add(self.bind[op["src"]], before=self._before_real(op.get("before")), deep=op.get("deep"), **kw)
        elif k == "copy_children":
            P_ = self.mnode(op["parent"])
            src = m.find(op["src"])
            if not src.children:
                outcome = M.Refuse(M.INVALID, "no children to copy")
            elif op.get("deep") and m.inside(P_, src):
                outcome = M.Unspec("deep copy of several branches into a target inside the source")
            else:
                outcome = m.add_many(P_, list(src.children), bool(op.get("deep")), None, ret="first")
            tgt = self.real(op["parent"])
            call = lambda: self.bind[op["src"]].copy_to(tgt, add_self=False, deep=bool(op.get("deep")))
        elif k == "move":
            n = m.find(op["node"])
            outcome = m.move(n, self.mnode(op["target"]), self._before_model(op.get("before")))
            tgt = self.real(op["target"])
            call = lambda: self.bind[op["node"]].move_to(tgt, before=self._before_real(op.get("before")))
        elif k == "move_foreign":
            other, _om = self._foreign([["fx", None, [["fx1", None, []]]], ["fy", None, []]])
            self._last_foreign = (other, self._foreign_snapshot(other))
            outcome = M.Refuse(M.UNSUP, "target belongs to another tree")
            tgt = other if op.get("to_tree") else list(other)[op.get("idx", 0) % 3]
            call = lambda: self.bind[op["node"]].move_to(tgt)
        elif k == "stale_use":
            # a node object the caller kept after it was removed (remove / remove_children / clear / filter) is used again:
            # whatever the call does, it must not change the live tree
            g = self.graveyard[op["gi"] % len(self.graveyard)][0]
            outcome = M.Refuse(M.INVALID, "node was removed from the tree earlier")
            live = self.real(op["live"])
            act = op["act"]
            extra = {"kind": "ka"} if self.typed else {}
            call = {"add": lambda: g.add("stale-child", **extra),
                    "move_to_live": lambda: g.move_to(live),
                    "live_move_to": lambda: live.move_to(g) if live is not t else g.move_to(t),
                    "remove": lambda: g.remove(),
                    "set_data": lambda: g.set_data("stale-data"),
                    "rm_children": lambda: g.remove_children(),
                    "add_before": lambda: live.add("stale-sibling", before=g, **extra),
                    "copy_into": lambda: g.add(live, **({} if live is t else extra)) if live is not t else g.add("x", **extra)}[act]
        elif k == "remove":
            n = m.find(op["node"])
            outcome = m.remove(n, bool(op.get("keep_children")), bool(op.get("with_clones")))
            call = lambda: self.bind[op["node"]].remove(keep_children=bool(op.get("keep_children")), with_clones=bool(op.get("with_clones")))
        elif k == "remove_children":
            outcome = m.remove_children(self.mnode(op["node"]))
            if op["node"] == ROOT:
                call = lambda: t.clear()
            else:
                call = lambda: self.bind[op["node"]].remove_children()
        elif k == "del":
            n = m.find(op["node"])
            r = self.bind[op["node"]]
            key = {"node_id": r.node_id, "data_id": n.data_id, "data": n.data}[op["key"]]
            nids = {u: x.node_id for u, x in self.bind.items() if m.has(u)}
            hits = m.resolve_key(key, nids)
            if isinstance(key, bool):
                outcome = M.Unspec("bool key")
            elif len(hits) == 1:
                outcome = m.remove(hits[0])
            elif not hits:
                outcome = M.Refuse(M.KEYERR)
            else:
                outcome = M.Refuse(M.AMBIG)
            call = lambda: t.__delitem__(key)
        elif k == "sort":
            outcome = m.sort(self.mnode(op["node"]), bool(op.get("deep")))
            keyfn = self._sort_key(op.get("key"))
            if op["node"] == ROOT:
                call = lambda: t.sort(key=keyfn, reverse=bool(op.get("reverse")), deep=bool(op.get("deep")))
            else:
                call = lambda: self.bind[op["node"]].sort_children(key=keyfn, reverse=bool(op.get("reverse")), deep=bool(op.get("deep")))
        elif k == "set_data":
            n = m.find(op["node"])
            outcome = m.set_data(n, op.get("data"), op.get("data_id"), op.get("with_clones"))
            if "with_clones" in op:
                kw["with_clones"] = op["with_clones"]
            if op.get("data_id") is not None:
                kw["data_id"] = op["data_id"]
            call = lambda: self.bind[op["node"]].set_data(op.get("data"), **kw)
        elif k == "rename":
            n = m.find(op["node"])
            if not isinstance(n.data, str):
                outcome = M.Refuse(M.INVALID, "rename on non-str data")
            else:
                outcome = m.set_data(n, op["data"])
            call = lambda: self.bind[op["node"]].rename(op["data"])
        elif k == "set_meta":
            outcome = m.set_meta(m.find(op["node"]), op["key"], op["value"])
            call = lambda: self.bind[op["node"]].set_meta(op["key"], op["value"])
        elif k == "clear_meta":
            outcome = m.clear_meta(m.find(op["node"]), op.get("key"))
            call = (lambda: self.bind[op["node"]].clear_meta(op["key"])) if op.get("key") is not None else (lambda: self.bind[op["node"]].clear_meta())
        elif k == "update_meta":
            vals = dict(op["values"])
            outcome = m.update_meta(m.find(op["node"]), vals, bool(op.get("replace")))
            passed = dict(vals)
            self._last_passed_dict = passed
            call = lambda: self.bind[op["node"]].update_meta(passed, replace=bool(op.get("replace")))
        elif k == "filterv":
            verd = {int(u): v for u, v in op["verdicts"].items()}
            outcome = m.filter_verdicts(self.mnode(op["node"]), verd)
            by_real = {id(self.bind[u]): v for u, v in verd.items() if u in self.bind}
            raise_form = bool(op.get("raise"))

            def _pred(nd):
                from nutree import SelectBranch, SkipBranch, StopTraversal

                v = by_real.get(id(nd), "F")
                if v == "T":
                    return True
                if v == "F":
                    return False
                if v == "N":
                    return None
                obj = {"K": SkipBranch(), "Z": SkipBranch(and_self=False), "S": SelectBranch(), "X": StopTraversal()}[v]
                if raise_form:
                    raise obj
                return obj

            call = lambda: self.real(op["node"]).filter(_pred)
        elif k == "filter":
            keep = set(op["keep"])
            outcome = m.filter(self.mnode(op["node"]), keep)
            keep_real = {id(self.bind[u]) for u in keep if u in self.bind}
            call = lambda: self.real(op["node"]).filter(lambda nd: id(nd) in keep_real)
        elif k == "addtree":
            other, omodel = self._foreign(op["spec"], other_typed=bool(op.get("foreign_typed")))
            P_ = self.mnode(op["parent"])
            if op.get("foreign_typed") and omodel.top:
                # a typed tree handed to a plain one: its nodes cannot be re-created there (the call fails inside the run of
                # copies, possibly after the up-front checks) - whatever it raises, nothing may stay behind
                outcome = M.Refuse(M.INVALID, "typed tree added to a plain tree")
            elif not omodel.top:
                # "all of its topnodes are added": none - nothing changes (an invalid position is still invalid)
                pos = m._position(m.kids(P_), self._before_model(op.get("before")))
                if op.get("via") == "copy_to":
                    outcome = M.Unspec("copy_to of an empty tree")
                elif isinstance(pos, int):
                    outcome = M.Ok(("any",))
                else:
                    outcome = pos
            else:
                deep = op.get("deep")
                outcome = m.add_many(P_, list(omodel.top), True if deep is None else bool(deep),
                                     self._before_model(op.get("before")), ret="any")
            tgt = self.real(op["parent"])
            self._last_foreign = (other, self._foreign_snapshot(other))
            if op.get("via") == "copy_to":
                call = lambda: other.copy_to(tgt, deep=True if op.get("deep") is None else bool(op.get("deep")))
                if not isinstance(outcome, M.Ok):
                    pass
                if op.get("before") is not None:
                    outcome = M.Unspec("copy_to has no before")
            elif op.get("via") in ("append_child", "prepend_child"):
                call = lambda: getattr(tgt, op["via"])(other, **({} if op.get("deep") is None else {"deep": op["deep"]}))
            else:
                call = lambda: tgt.add(other, before=self._before_real(op.get("before")), deep=op.get("deep"))
        elif k == "fromdict":
            # node.from_dict(<nested list of dicts>) on a node without children: the items become its branch, in order;
            # a collision among the items (any level) refuses the whole call; a mapper that raises half-way is a
            # callback fault (C13: only C01-C03 are demanded afterwards - the model is re-read from the tree)
            P_ = self.mnode(op["node"])
            om = M.MTree(typed=self.typed, rule=m.rule, default_kind=m.default_kind)

            def _rec(mk, lst):
                for d, did, kids in lst:
                    mn = om.new(d, did if did is not None else m.rule(d), m.default_kind if self.typed else None)
                    mk.append(mn)
                    _rec(mn.children, kids)

            _rec(om.top, op["spec"])

            def _dup(lst):
                ids = [x.data_id for x in lst]
                return len(set(ids)) != len(ids) or any(_dup(x.children) for x in lst)

            if op.get("fail_at") is not None:
                outcome = M.Unspec("mapper fault inside from_dict")
            elif m.kids(P_):
                outcome = M.Unspec("from_dict on a node that has children")
            elif _dup(om.top):
                outcome = M.Refuse(M.UNIQ)
            else:
                outcome = m.add_many(P_, list(om.top), True, None, ret="any")

            def _items(lst):
                out = []
                for d, did, kids in lst:
                    it = {"data": d}
                    if did is not None:
                        it["data_id"] = did
                    if kids or self.rng.random() < 0.3:
                        it["children"] = _items(kids)
                    out.append(it)
                return out

            items = _items(op["spec"])
            calls = [0]

            def _mapper(parent, item):
                calls[0] += 1
                if calls[0] == op.get("fail_at"):
                    raise FromDictFault(f"mapper fault at item {calls[0]}")
                return item["data"]

            tgt = self.real(op["node"])
            call = (lambda: tgt.from_dict(items, mapper=_mapper)) if op.get("mapper") else (lambda: tgt.from_dict(items))
        else:
            raise KeyError(k)
        if self.valid_only and (outcome.kind == "unspec" or (outcome.kind == "refuse" and outcome.why not in (M.UNIQ, M.AMBIG, M.KEYERR, M.UNSUP))):
            # valid-calls-only mode (used under `python -O`, where argument validation done by assert statements is gone):
            # only calls the documentation allows, and the refusals the library raises explicitly, are executed
            raise KeyError("not executed in valid-calls-only mode")
        try:
            ret = call()
            exc = None
        except RecursionError as e:
            ret, exc = None, e
        except Exception as e:
            ret, exc = None, e
        return outcome, ret, exc

    def _sort_key(self, name):
        if name is None:
            return None
        if name == "str":
            return lambda nd: str(nd.data)
        if name == "len":
            return lambda nd: len(nd.children)
        if name == "const":
            return lambda nd: 0
        raise KeyError(name)

    def _sort_key_model(self, name):
        if name is None:
            # the documented default key is the node's *name*: format(data) for the stock node classes, the data in
            # guillemets for the extension classes - not the same order (`«2305»` sorts before `«2»`, `2` before `2305`)
            if self.ext:
                return lambda mn: "\u00ab" + str(mn.data) + "\u00bb"
            return lambda mn: f"{mn.data}"
        if name == "str":
            return lambda mn: str(mn.data)
        if name == "len":
            return lambda mn: len(mn.children)
        return lambda mn: 0

    def _foreign(self, spec, other_typed=False):
        """spec: nested [[label, data_id|None, kids]] -> (real foreign tree of the same class, its model)."""
        if other_typed and not self.typed:
            from nutree.typed_tree import TypedTree

            other = TypedTree("foreign")
        else:
            other = type(self.tree)("foreign")
        om = M.MTree(typed=self.typed, rule=hash)

        def rec(holder, mk, lst):
            for lab, did, kids in lst:
                kw = {}
                if did is not None:
                    kw["data_id"] = did
                if self.typed or other_typed:
                    kw["kind"] = "fk"
                r = holder.add(lab, **kw)
                mn = om.new(lab, did if did is not None else hash(lab), "fk" if self.typed else None)
                mk.append(mn)
                rec(r, mn.children, kids)

        rec(other, om.top, spec)
        return other, om

    def _foreign_snapshot(self, other):
        def rec(h):
            return [(id(c), id(c.data), c.data_id, rec(c)) for c in h.children]

        return rec(other)

    # ------------------------------------------------------------------ one step
    def step(self, op, *, monitors=True):
        """Execute one op; returns list[Finding] (empty = everything held)."""
        from nutree import AmbiguousMatchError, UniqueConstraintError

        findings = []
        pre = self.ident_snapshot()
        pre_nodes = {u: (r, r.node_id) for u, r in self.bind.items()}
        self.log.append(self.describe(op))
        self._src_ids_before = None
        if op["op"] == "addnode" and op.get("deep") and op.get("src") in self.bind:
            def _ids0(nd, depth=0):
                return [nd.data_id, [_ids0(c, depth + 1) for c in nd.children]] if depth < 50 else []
            try:
                self._src_ids_before = _ids0(self.bind[op["src"]])
            except Exception:
                pass
        try:
            outcome, ret, exc = self.execute(op)
        except (KeyError, StopIteration) as e:
            # the op refers to a node the model no longer has: generator bug, not a finding
            self.log[-1] += f"  [skipped: {e!r}]"
            self.count("skipped_ops")
            self.last_ok = False
            return findings
        self.count(f"op:{op['op']}:{outcome.kind}" + (f":{outcome.why}" if outcome.kind == "refuse" else ""))
        followed = True
        if outcome.kind == "ok":
            if exc is not None:
                findings.append(Finding("C04:valid_refused", f"documented-valid call raised {type(exc).__name__}: {exc}"))
                followed = False
            else:
                errs = []
                # sort: adopt the real order after checking it is a sorted permutation
                for mp in outcome.sorted_parents:
                    holder = self.tree if mp is None else self.bind.get(mp.uid)
                    mk = self.m.kids(mp)
                    rk = list(holder.children) if holder is not None else []
                    if sorted(map(id, rk)) != sorted(id(self.bind.get(c.uid)) for c in mk):
                        errs.append(f"sort changed the set of children of {mp!r}")
                        continue
                    keyf = self._sort_key_model(op.get("key"))
                    byreal = {id(self.bind[c.uid]): c for c in mk}
                    new = [byreal[id(r)] for r in rk]
                    keys = [keyf(c) for c in new]
                    ordered = all(a <= b for a, b in zip(keys, keys[1:])) if not op.get("reverse") else all(a >= b for a, b in zip(keys, keys[1:]))
                    if not ordered:
                        errs.append(f"children of {mp!r} are not sorted: {keys}")
                    if mp is None:
                        self.m.top = new
                    else:
                        mp.children = new
                if op["op"] in ("add", "sibling") and ret is not None and hasattr(ret, "data_id"):
                    want = op["data_id"] if op.get("data_id") is not None else self.m.rule(op["data"])
                    try:
                        if ret.data_id != want:
                            findings.append(Finding("C02:wrong_data_id", f"new node for data {op['data']!r} (explicit id {op.get('data_id')!r}) "
                                                                         f"reports data_id {ret.data_id!r}, the rule gives {want!r}"))
                    except Exception:
                        pass
                if op["op"] == "addnode" and ret is not None and hasattr(ret, "data_id") and op["src"] in pre_nodes:
                    # a copy carries the ids of its source, for the copied node and (deep) for all descendants
                    def _ids(nd, depth=0):
                        return [nd.data_id, [_ids(c, depth + 1) for c in nd.children]] if depth < 50 else []
                    try:
                        src_real = pre_nodes[op["src"]][0]
                        got_ids = _ids(ret)
                        want_ids = self._src_ids_before if op.get("deep") else [src_real.data_id, []]
                        if op.get("deep") and want_ids is not None and got_ids != want_ids:
                            findings.append(Finding("C02:wrong_data_id", f"deep copy carries data_ids {got_ids}, the source had {want_ids}"))
                        elif not op.get("deep") and got_ids[0] != want_ids[0]:
                            findings.append(Finding("C02:wrong_data_id", f"copy reports data_id {got_ids[0]!r}, the source has {want_ids[0]!r}"))
                    except Exception:
                        pass
                try:
                    errs += self.compare()
                except Exception:
                    if not exc_in_library():
                        raise
                    # reading parent / children / data of a reachable node raised inside the library
                    findings.append(Finding("C01:wf_graph", "reading the structure after the call raised: " + short_tb(3)[-600:]))
                    errs.append("structure not readable")
                if not errs:
                    kind = outcome.ret[0]
                    if kind == "node":
                        exp = self.bind.get(outcome.ret[1].uid)
                        if ret is not exp:
                            errs.append(f"returned {ret!r}, expected the node {exp!r}")
                    # the return value of operations whose docstring promises none is not constrained
                if op["op"] == "update_meta" and not errs:
                    # the caller's dict must not be aliased
                    self._last_passed_dict["__later__"] = 1
                    r = self.bind[op["node"]]
                    if r.meta is not None and "__later__" in r.meta:
                        errs.append("update_meta aliased the caller's dict")
                if op["op"] == "addtree" and not errs:
                    other, snap = self._last_foreign
                    if self._foreign_snapshot(other) != snap:
                        findings.append(Finding("C07:source_changed", "adding a tree changed the source tree (e.g. order of its children)"))
                if errs:
                    findings.append(Finding("C04:model_mismatch", "; ".join(errs[:3])))
                    followed = False
                for mn in outcome.removed:
                    if mn.uid in pre_nodes:
                        r, nid = pre_nodes[mn.uid]
                        self.graveyard.append((r, nid))
                        self.bind.pop(mn.uid, None)
        elif outcome.kind == "refuse":
            if exc is None:
                if outcome.why == M.UNIQ:
                    findings.append(Finding("C03:collision_not_refused", f"call would create two siblings with one data_id but returned {ret!r}"))
                elif outcome.why == M.AMBIG and op["op"] == "set_data":
                    # "set_data() for clones requires `with_clones` decision" (the library's own wording, pinned by its tests)
                    findings.append(Finding("C04:ambiguous_not_refused", f"set_data() on a node that has clones, without a with_clones decision, was not refused (returned {ret!r})"))
                else:
                    self.count(f"invalid_not_refused:{outcome.why}")
                followed = False
            else:
                if isinstance(exc, RecursionError):
                    findings.append(Finding("C13:refusal_changed_state", f"invalid call ended in RecursionError"))
                if outcome.why == M.UNIQ and not isinstance(exc, UniqueConstraintError):
                    findings.append(Finding("C03:wrong_error", f"collision refused with {type(exc).__name__}: {exc}"))
                if outcome.why == M.AMBIG and not isinstance(exc, AmbiguousMatchError):
                    self.count("ambiguous_refused_with_other_type")
                if outcome.why == M.UNSUP and not isinstance(exc, NotImplementedError):
                    self.count("unsupported_refused_with_other_type")
                post = self.ident_snapshot()
                self.count("refusals_state_compared")
                if op["op"] == "addtree" and getattr(self, "_last_foreign", None):
                    other, snap = self._last_foreign
                    if self._foreign_snapshot(other) != snap:
                        findings.append(Finding("C13:refusal_changed_state",
                                                f"refused add of a tree ({outcome.why}: {type(exc).__name__}) changed the *source* tree (e.g. the order of its top nodes)"))
                        findings.append(Finding("C07:source_changed", "a refused add of a tree changed the source tree"))
                if post != pre:
                    findings.append(Finding("C13:refusal_changed_state",
                                            f"refused call ({outcome.why}: {type(exc).__name__}: {exc}) changed the tree"))
                    # the specification's effect of a refused call is "none": any change is also an undocumented effect
                    findings.append(Finding("C04:refusal_effect",
                                            f"a call that raised {type(exc).__name__} had an effect on the tree (parents, order, ids, count or meta changed)"))
                    followed = False
        else:  # unspecified
            followed = False
        if op["op"] == "move_foreign":
            other, snap = self._last_foreign
            ferrs, fnodes = wf.wf_graph(other)
            if ferrs or self._foreign_snapshot(other) != snap:
                findings.append(Finding("C01:wf_graph", "after move_to(<node of another tree>) the other tree is changed/broken: "
                                        + "; ".join(ferrs[:2])))
        self.last_ok = outcome.kind == "ok" and exc is None and followed
        if not followed and not findings:
            try:
                self.resync()
                self.count("resyncs")
                followed = True
            except RecursionError:
                pass  # broken structure: the monitors below will report it
        if monitors:
            mf = self.monitors(trust_model=followed or (outcome.kind == "ok" and exc is None))
            if mf and outcome.kind == "refuse" and exc is not None and not any(f.prop == "C13" for f in findings):
                findings.append(Finding("C13:refusal_corrupted_state",
                                        f"after a refused call ({outcome.why}: {type(exc).__name__}) the tree fails {mf[0].tag}: {mf[0].msg}"))
            findings += mf
        return findings

    def monitors(self, trust_model=True):
        findings = []
        errs, nodes = wf.wf_graph(self.tree, self.graveyard[-400:])
        if errs:
            findings.append(Finding("C01:wf_graph", "; ".join(errs[:3])))
            if not nodes or any("walk failed" in e or "reachable twice" in e or "own ancestor" in e for e in errs):
                if nodes and not any("walk failed" in e or "own ancestor" in e for e in errs):
                    # a node that is listed twice below one parent is also "two children with one data_id": the sibling
                    # rule can still be evaluated on the child lists that were walked (index queries cannot)
                    seen, uniq = set(), []
                    for n in nodes:
                        if id(n) not in seen:
                            seen.add(id(n))
                            uniq.append(n)
                    try:
                        e3 = wf.wf_siblings(self.tree, uniq)
                    except Exception:
                        e3 = []
                    if e3:
                        findings.append(Finding("C03:wf_siblings", "; ".join(e3[:3])))
                return findings  # no usable node list: the other monitors cannot be evaluated
        self.max_nodes = max(self.max_nodes, len(nodes))
        if len(self.state_digests) < 60:
            def _sh(h):
                return [(repr(c.data), repr(c.data_id), getattr(c, "kind", None), _sh(c)) for c in h.children]
            try:
                self.state_digests.append(_sh(self.tree))
            except Exception:
                pass
        e3 = wf.wf_siblings(self.tree, nodes)
        if e3:
            findings.append(Finding("C03:wf_siblings", "; ".join(e3[:3])))
        for n in nodes:
            try:
                d = n.data_id
                if d not in self.ever_ids:
                    self.ever_ids.append(d)
            except Exception:
                pass
        uid_of = {id(r): u for u, r in self.bind.items()}

        def expected_id(n):
            u = uid_of.get(id(n))
            if not trust_model or u is None or not self.m.has(u):
                return NotImplemented
            return self.m.find(u).data_id

        try:
            if self.tree.count_unique < len(nodes):
                self.saw_clone = True
        except Exception:
            pass
        probe = list(self.ever_ids[-40:]) + ["never-present-id", 424242]
        e2 = wf.wf_index(self.tree, nodes, expected_id=expected_id, probe_ids=probe,
                         probe_data=self.ever_data[-30:], id_of_data=self.m.rule, counters=self.counters)
        if e2:
            findings.append(Finding("C02:wf_index", "; ".join(e2[:3])))
        return findings

    def describe(self, op):
        def lab(uid):
            if uid == ROOT:
                return "ROOT"
            try:
                mn = self.m.find(uid)
                return f"#{uid}({mn.data!r})"
            except KeyError:
                return f"#{uid}(?)"

        d = dict(op)
        for k in ("parent", "node", "target", "src", "sib"):
            if k in d:
                d[k] = lab(d[k])
        if isinstance(d.get("before"), (tuple, list)) and d["before"][0] == "node":
            d["before"] = ("node", lab(d["before"][1]))
        return repr(d)


# ---------------------------------------------------------------------------
# op generator with hostile argument choice
# ---------------------------------------------------------------------------
PROFILES = {
    # weights per op kind
    "c01": {"stale_use": 3, "move_foreign": 0.6, "add": 10, "sibling": 3, "addnode": 5, "copy_children": 2, "move": 9, "remove": 9, "remove_children": 2, "clear": 0.4,
            "del": 2, "sort": 2, "set_data": 4, "rename": 1, "filter": 2, "addtree": 2, "fromdict": 2, "meta": 1},
    "c02": {"stale_use": 1.5, "move_foreign": 0.6, "add": 10, "sibling": 2, "addnode": 6, "copy_children": 1, "move": 4, "remove": 7, "remove_children": 1, "clear": 0.3,
            "del": 2, "sort": 1, "set_data": 14, "rename": 2, "filter": 2, "addtree": 1, "fromdict": 1.5, "meta": 0},
    "c03": {"stale_use": 2.5, "move_foreign": 0.6, "add": 8, "sibling": 4, "addnode": 8, "copy_children": 4, "move": 10, "remove": 8, "remove_children": 1, "clear": 0.2,
            "del": 1, "sort": 1, "set_data": 10, "rename": 3, "filter": 1, "addtree": 4, "fromdict": 3, "meta": 0},
    "c04": {"stale_use": 1.5, "move_foreign": 0.6, "add": 10, "sibling": 4, "addnode": 4, "copy_children": 2, "move": 8, "remove": 7, "remove_children": 2, "clear": 0.3,
            "del": 2, "sort": 3, "set_data": 5, "rename": 2, "filter": 1, "addtree": 2, "fromdict": 2, "meta": 5},
}


def gen_op(s: Session, rng, profile, *, hostile=True, allow_unspec=True):
    m = s.m
    w = PROFILES[profile]
    nodes = m.all()
    kinds = list(w)
    for _ in range(30):
        k = rng.choices(kinds, weights=[w[x] for x in kinds])[0]
        op = _gen_kind(s, rng, k, nodes, hostile, allow_unspec)
        if op is not None:
            return op
    return {"op": "add", "parent": ROOT, "data": s.mkdata(rng)}


def _pick_before(rng, m, P_, hostile, allow_unspec, exclude=None):
    K = [c for c in m.kids(P_) if c is not exclude]
    choices = [None, None, True, False]
    if K:
        choices += [("idx", rng.randrange(len(K))), ("node", rng.choice(K).uid), ("node", K[0].uid), ("node", K[-1].uid), ("idx", 0),
                    ("idx", -rng.randint(1, len(K)))]
    else:
        choices += [("idx", 0)]
    if hostile:
        allnodes = m.all()
        if allnodes:
            choices.append(("node", rng.choice(allnodes).uid))  # often a node of another parent
        choices += [("raw", rng.choice(["str", "float", "tuple"]))]  # not a valid position type at all
        if allow_unspec:
            choices += [("idx", len(K) + 2), ("idx", -len(K) - 1)]
    return rng.choice(choices)


def _gen_kind(s, rng, k, nodes, hostile, allow_unspec):
    m = s.m
    anyp = lambda: rng.choice(nodes).uid if nodes and rng.random() < 0.8 else ROOT
    if k == "add":
        p = anyp()
        P_ = s.mnode(p)
        data = s.mkdata(rng)
        if hostile and m.kids(P_) and rng.random() < 0.25:
            # aim at a collision: reuse a child's data (and id)
            c = rng.choice(m.kids(P_))
            op = {"op": "add", "parent": p, "data": c.data, "before": _pick_before(rng, m, P_, hostile, allow_unspec)}
            if c.data_id != m.rule(c.data):
                op["data_id"] = c.data_id
            return op
        op = {"op": "add", "parent": p, "data": data, "before": _pick_before(rng, m, P_, hostile, allow_unspec)}
        did = s.mkid(rng)
        if did is not None:
            op["data_id"] = did
        if s.typed:
            op["kind"] = rng.choice(["ka", "kb", None])
            if hostile and rng.random() < 0.06:
                op["kind"] = rng.choice([123, 4.5])  # not a str: documented-invalid
        via = rng.choice(["add", "add", "add_child", "append_child", "prepend_child"])
        if via in ("append_child", "prepend_child"):
            if p == ROOT:
                via = "add"
            else:
                op["before"] = None if via == "append_child" else True
        op["via"] = via
        if rng.random() < 0.03:
            op["node_id"] = rng.randint(1, 10**6)
        elif s.flavour in ("int", "expl") and rng.random() < 0.12:
            # a small node_id that may equal another node's (int) data_id: index access has to prefer the node_id
            nid = rng.randint(1, 9)
            if not any(r.node_id == nid for r in s.bind.values()):
                op["node_id"] = nid
        elif hostile and allow_unspec and nodes and rng.random() < 0.02:
            # a node_id that is already in use (bound real node): must not end in two nodes sharing one id
            try:
                op["node_id"] = s.bind[rng.choice(nodes).uid].node_id
            except KeyError:
                pass
        s.ever_data.append(op["data"])
        return op
    if k == "sibling":
        if not nodes:
            return None
        n = rng.choice(nodes)
        op = {"op": "sibling", "node": n.uid, "data": s.mkdata(rng), "which": rng.choice(["prepend_sibling", "append_sibling"])}
        did = s.mkid(rng) if rng.random() < 0.5 else (rng.choice(["SX", 77]) if rng.random() < 0.25 else None)
        if did is not None:
            op["data_id"] = did
        if hostile and rng.random() < 0.2:
            op.pop("data_id", None)
            sib = rng.choice(m.kids(m.parent_of(n)))
            op["data"] = sib.data
            if sib.data_id != m.rule(sib.data):
                op["data_id"] = sib.data_id
        return op
    if k == "addnode":
        if not nodes:
            return None
        src = rng.choice(nodes)
        p = anyp()
        P_ = s.mnode(p)
        deep = rng.choice([None, False, True])
        if deep and m.inside(P_, src) and not (hostile and allow_unspec):
            return None
        op = {"op": "addnode", "parent": p, "src": src.uid, "deep": deep, "before": _pick_before(rng, m, P_, hostile, allow_unspec),
              "via": rng.choice(["add", "add", "copy_to"])}
        if op["via"] == "copy_to":
            op["deep"] = bool(deep)
        if s.typed:
            # the kind-less routes (add(node) without kind=, copy_to) are a listed C07 finding
            op["via"] = "add"
            op["kind"] = rng.choice([src.kind, src.kind, "kc"])
            if p != ROOT and rng.random() < 0.25:
                # the typed twins of the child shortcuts, kind stated
                op = {"op": "addnode", "via": rng.choice(["append_child", "prepend_child"]), "parent": p, "src": src.uid, "deep": deep,
                      "kind": op["kind"]}
        elif rng.random() < 0.25:
            # shortcut routes with a node as source
            via = rng.choice(["append_sibling", "prepend_sibling", "append_child", "prepend_child"])
            if via.endswith("sibling"):
                sib = rng.choice(nodes)
                if deep and m.inside(m.parent_of(sib), src) and not (hostile and allow_unspec):
                    return None
                op = {"op": "addnode", "via": via, "sib": sib.uid, "src": src.uid, "deep": deep}
            elif p != ROOT:
                op = {"op": "addnode", "via": via, "parent": p, "src": src.uid, "deep": deep}
            if rng.random() < 0.15 and not deep:
                op["node_id"] = rng.randrange(10**6, 10**7)
        return op
    if k == "copy_children":
        if not nodes or s.typed:
            return None
        src = rng.choice(nodes)
        p = anyp()
        deep = rng.random() < 0.5
        if deep and m.inside(s.mnode(p), src):
            return None
        return {"op": "copy_children", "parent": p, "src": src.uid, "deep": deep}
    if k == "move":
        if not nodes or s.typed and rng.random() < 0.7:
            return None
        n = rng.choice(nodes)
        tgt = anyp()
        T_ = s.mnode(tgt)
        if not hostile and m.inside(T_, n):
            return None
        if hostile and rng.random() < 0.1:
            desc = m.branch(n)
            tgt = rng.choice(desc).uid  # into own branch / onto itself
            T_ = s.mnode(tgt)
        return {"op": "move", "node": n.uid, "target": tgt, "before": _pick_before(rng, m, T_, hostile, allow_unspec, exclude=n)}
    if k == "move_foreign":
        if not nodes or s.typed:
            return None
        return {"op": "move_foreign", "node": rng.choice(nodes).uid, "to_tree": rng.random() < 0.3, "idx": rng.randrange(3)}
    if k == "remove":
        if not nodes:
            return None
        n = rng.choice(nodes)
        if hostile and rng.random() < 0.3:
            clones = [x for x in nodes if len(m.with_id(x.data_id)) > 1]
            if clones:
                n = rng.choice(clones)
        op = {"op": "remove", "node": n.uid}
        r = rng.random()
        if r < 0.3:
            op["keep_children"] = True
        elif r < 0.6:
            op["with_clones"] = True
        elif r < 0.68:
            op["keep_children"] = True
            op["with_clones"] = True
        return op
    if k == "remove_children":
        if not nodes:
            return None
        return {"op": "remove_children", "node": rng.choice(nodes).uid}
    if k == "clear":
        return {"op": "remove_children", "node": ROOT}
    if k == "stale_use":
        if not s.graveyard:
            return None
        return {"op": "stale_use", "gi": rng.randrange(len(s.graveyard)), "live": anyp(),
                "act": rng.choice(["add", "move_to_live", "live_move_to", "remove", "set_data", "rm_children", "add_before", "copy_into"])}
    if k == "del":
        if not nodes:
            return None
        return {"op": "del", "node": rng.choice(nodes).uid, "key": rng.choice(["node_id", "data_id", "data"])}
    if k == "sort":
        return {"op": "sort", "node": anyp(), "key": rng.choice([None, "str", "len", "const"]), "reverse": rng.random() < 0.3,
                "deep": rng.random() < 0.5}
    if k == "set_data":
        if not nodes:
            return None
        n = rng.choice(nodes)
        if hostile and rng.random() < 0.4:
            clones = [x for x in nodes if len(m.with_id(x.data_id)) > 1]
            if clones:
                n = rng.choice(clones)
        op = {"op": "set_data", "node": n.uid}
        r = rng.random()
        if r < 0.55:
            op["data"] = s.mkdata(rng)
        elif r < 0.75:
            op["data"] = s.mkdata(rng)
            op["data_id"] = rng.choice(["X", "Y", 7, 8])
        elif r < 0.9:
            op["data"] = None
            op["data_id"] = rng.choice(["X", "Y", 7, 8])
        elif r < 0.93:
            op["data"] = s.mkdata(rng)
            op["data_id"] = n.data_id  # new data object, id explicitly kept
        elif r < 0.97:
            op["data"] = n.data  # same object
        else:
            op["data"] = None
        if hostile and len(m.with_id(n.data_id)) > 1 and rng.random() < 0.25:
            # "a new revision of the same record" on a clone: another data object under the id the group has
            op["data"] = s.mkdata(rng)
            op["data_id"] = n.data_id
            if rng.random() < 0.5:
                twin = [o for o in s.objs if m.rule(o) == n.data_id and o is not n.data] if s.flavour == "obj" else []
                if twin:
                    op["data"] = rng.choice(twin)
                    op.pop("data_id")
        elif hostile and rng.random() < 0.3:
            sibs = [c for c in m.kids(m.parent_of(n)) if c is not n]
            other = rng.choice(sibs or nodes)
            op["data"] = other.data  # collision with a sibling or merge with another group
            op.pop("data_id", None)
            if other.data_id != m.rule(other.data):
                op["data_id"] = other.data_id
        wc = rng.choice(["omit", None, True, False])
        if wc != "omit":
            op["with_clones"] = wc
        if op.get("data") is not None:
            s.ever_data.append(op["data"])
        return op
    if k == "rename":
        if not nodes:
            return None
        n = rng.choice(nodes)
        return {"op": "rename", "node": n.uid, "data": rng.choice("abcdefg")}
    if k == "filter" and rng.random() < 0.5:
        base = anyp()
        sub = m.branch(s.mnode(base))[1:] if base != ROOT else nodes
        verd = {str(x.uid): rng.choices("TFNKZSX", weights=[5, 4, 1, 2, 1, 2, 0.7])[0] for x in sub}
        return {"op": "filterv", "node": base, "verdicts": verd, "raise": rng.random() < 0.5}
    if k == "filter":
        base = anyp()
        sub = m.branch(s.mnode(base))[1:] if base != ROOT else nodes
        keep = [x.uid for x in sub if rng.random() < 0.6]
        return {"op": "filter", "node": base, "keep": keep}
    if k == "addtree":
        if s.typed:
            return None
        p = anyp()
        P_ = s.mnode(p)

        def spec(depth):
            labs = rng.sample("abcdefxyz", rng.randint(1 if depth == 0 else 0, 3))
            return [[l, None, spec(depth + 1) if depth < 2 and rng.random() < 0.4 else []] for l in labs]

        sp = spec(0)
        if rng.random() < 0.12:
            sp = []  # an empty tree: nothing to add, whatever the position
        if s.flavour not in ("str", "expl"):
            sp = [[f"F{l}", d, k2] for l, d, k2 in sp]
        op = {"op": "addtree", "parent": p, "spec": sp, "deep": rng.choice([None, None, True, False]),
              "before": _pick_before(rng, m, P_, hostile, allow_unspec), "via": rng.choice(["add", "add", "copy_to", "append_child", "prepend_child"])}
        if op["via"] in ("append_child", "prepend_child"):
            # the shortcut routes of a node (they have their own parameter defaults): at either end of its child list
            if p == ROOT:
                op["via"] = "add"
            else:
                op["before"] = None if op["via"] == "append_child" else True
        if op["via"] == "copy_to":
            op["before"] = None
            if op["deep"] is None:
                op["deep"] = True
        if hostile and rng.random() < 0.15:
            op["foreign_typed"] = True
        return op
    if k == "fromdict":
        leaves = [n for n in nodes if not n.children]
        if not leaves:
            return None
        tgt = rng.choice(leaves)
        total = [0]

        def spec(depth):
            out = []
            for _ in range(rng.randint(1 if depth == 0 else 0, 3)):
                total[0] += 1
                did = s.mkid(rng) if (s.flavour == "expl" or rng.random() < 0.1) else None
                out.append([s.mkdata(rng), did, spec(depth + 1) if depth < 2 and rng.random() < 0.5 else []])
            return out

        sp = spec(0)
        fail_at = rng.randint(1, total[0]) if rng.random() < 0.35 else None
        return {"op": "fromdict", "node": tgt.uid, "spec": sp, "fail_at": fail_at, "mapper": fail_at is not None or rng.random() < 0.5}
    if k == "meta":
        if not nodes:
            return None
        n = rng.choice(nodes)
        r = rng.random()
        if r < 0.4:
            return {"op": "set_meta", "node": n.uid, "key": rng.choice("kl"), "value": rng.choice([1, "v", None, [1], 0, False, "", []])}
        if r < 0.6:
            return {"op": "clear_meta", "node": n.uid, "key": rng.choice(["k", "l", None])}
        return {"op": "update_meta", "node": n.uid, "values": {rng.choice("klm"): rng.randint(0, 3)}, "replace": rng.random() < 0.4}
    return None


def run_history(case, res, *, own_prop, extra_props=()):
    """case: {seed, profile, flavour, idconf, typed, steps, hostile, allow_unspec}.
    Findings tagged own_prop become violations; others are counted as context."""
    import random as _r

    rng = _r.Random(case["seed"])
    s = Session(typed=case.get("typed", False), flavour=case["flavour"], idconf=case.get("idconf", "default"), seed=case["seed"],
                ext=bool(case.get("ext", case["seed"] % 3 == 0)))
    s.valid_only = bool(case.get("valid_only"))
    steps = case["steps"]
    nsteps = 0
    findings = []
    for i in range(steps):
        op = gen_op(s, rng, case["profile"], hostile=case.get("hostile", True), allow_unspec=case.get("allow_unspec", True))
        try:
            findings = s.step(op)
        except Exception:
            res.inconc("history engine error: " + short_tb())
            return s
        nsteps += 1
        if findings:
            # an index-only finding (C02) leaves structure and model in step: other properties keep going,
            # so that consequences of a stale index (e.g. an accepted duplicate sibling) are still observed
            if own_prop != "C02" and all(f.tag == "C02:wf_index" for f in findings) and i + 1 < steps:
                for f in findings:
                    res.count(f"context_finding:{f.tag}")
                findings = []
                continue
            foreign = all(f.prop != own_prop and f.prop not in extra_props for f in findings)
            if foreign and i + 1 < steps and own_prop in ("C02", "C03"):
                # somebody else's finding (e.g. a refused call that changed the tree): re-synchronise and go on, so
                # that a later consequence for *this* property (stale index, accepted duplicate) is still observed
                for f in findings:
                    res.count(f"context_finding:{f.tag}")
                try:
                    s.resync()
                    findings = []
                    continue
                except Exception:
                    pass
            break
    for k, v in s.counters.items():
        res.count(k, v)
    for d in s.state_digests:
        res.observe("tree_states_after_a_step", d)
    res.count("steps", nsteps)
    for f in findings:
        if f.prop == own_prop or f.prop in extra_props:
            res.violation(case, f"[{f.tag}] {f.msg}", history=s.log[-12:], step=nsteps)
        else:
            res.count(f"context_finding:{f.tag}")
    s.nsteps = nsteps
    return s
