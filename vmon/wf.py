"""Structural monitors evaluated at quiescent points (after a depth-0 API call).

wf_graph    -> C01   wf_index -> C02   wf_siblings -> C03
All of them read the tree through its public API only, are cycle-safe, and
return a list of human-readable findings (empty = holds).
"""

from __future__ import annotations


class Broken(Exception):
    pass


def walk(tree, limit=100000):
    """Nodes reachable from tree.children, pre-order, with walk parents.  Cycle-safe."""
    out = []
    seen = set()
    errs = []

    def rec(holder, parent, depth):
        try:
            kids = list(holder.children)
        except Exception as e:  # a broken node may fail here
            errs.append(f"children of {parent!r} not readable: {e!r}")
            return
        for c in kids:
            if id(c) in seen:
                errs.append(f"node {safe_repr(c)} is reachable twice (as child of {safe_repr(parent)})")
                continue
            seen.add(id(c))
            out.append((c, parent))
            if len(out) > limit or depth > 5000:
                raise Broken("walk exceeds limits")
            rec(c, c, depth + 1)

    rec(tree, None, 0)
    return out, errs


def safe_repr(n):
    try:
        return repr(n)
    except Exception:
        return f"<node at {id(n):#x}>"


def wf_graph(tree, graveyard=()):
    """graveyard: iterable of (node, old_node_id) that the documented semantics removed."""
    errs = []
    try:
        R, werrs = walk(tree)
    except (Broken, RecursionError) as e:
        return [f"walk failed: {e!r}"], []
    errs += werrs
    nodes = [n for n, _ in R]
    ids = set()
    try:
        cnt = tree.count
        ln = len(tree)
    except Exception as e:
        errs.append(f"count not readable: {e!r}")
        cnt = ln = None
    if cnt is not None and (cnt != len(nodes) or ln != len(nodes)):
        errs.append(f"count={cnt}, len={ln}, but {len(nodes)} nodes are reachable")
    for n, wp in R:
        try:
            if n.tree is not tree:
                errs.append(f"{safe_repr(n)} reports owner {n.tree!r}")
            if n.parent is not wp:
                errs.append(f"{safe_repr(n)}.parent is {safe_repr(n.parent)}, reached below {safe_repr(wp)}")
            sibs = list(tree.children) if wp is None else list(wp.children)
            occ = sum(1 for c in sibs if c is n)
            if occ != 1:
                errs.append(f"{safe_repr(n)} occurs {occ} times in its parent's child list")
            # never its own ancestor
            p = n.parent
            steps = 0
            while p is not None:
                if p is n:
                    errs.append(f"{safe_repr(n)} is its own ancestor")
                    break
                steps += 1
                if steps > len(nodes) + 1:
                    errs.append(f"parent chain of {safe_repr(n)} does not terminate")
                    break
                p = p.parent
            nid = n.node_id
            if nid in ids:
                errs.append(f"node_id {nid} is used twice")
            ids.add(nid)
            if tree.find_first(node_id=nid) is not n:
                errs.append(f"find_first(node_id={nid}) does not return {safe_repr(n)}")
        except Exception as e:
            errs.append(f"query on reachable node {safe_repr(n)} raised {e!r}")
        if len(errs) > 8:
            break
    if not errs:
        try:
            it = list(tree)
            if [id(x) for x in it] != [id(x) for x in nodes]:
                errs.append("iterating the tree does not give the reachable nodes in pre-order")
        except Exception as e:
            errs.append(f"iterating the tree raised {e!r}")
    live = {id(n) for n in nodes}
    for g, old_nid in graveyard:
        if id(g) in live:
            errs.append(f"removed node (old node_id {old_nid}) is still reachable")
        elif old_nid is not None:
            try:
                f = tree.find_first(node_id=old_nid)
            except Exception as e:
                errs.append(f"find_first(node_id=<removed>) raised {e!r}")
                continue
            if f is g:
                errs.append(f"removed node is still found by its node_id {old_nid}")
    return errs, nodes


def wf_siblings(tree, nodes):
    errs = []
    for holder in [tree] + list(nodes):
        try:
            seen = {}
            for c in holder.children:
                d = c.data_id
                if d in seen:
                    errs.append(f"{safe_repr(holder)} has two children with data_id {d!r}: {safe_repr(seen[d])}, {safe_repr(c)}")
                seen[d] = c
        except Exception as e:
            errs.append(f"children of {safe_repr(holder)}: {e!r}")
    return errs


def _idset(lst):
    return sorted(id(x) for x in lst)


def wf_index(tree, nodes, *, expected_id=None, probe_ids=(), probe_data=(), id_of_data=None, counters=None):
    """expected_id(node) -> the id the ledger derives (None: trust node.data_id).
    probe_ids: ids present earlier or never; probe_data: data objects of the flavour;
    id_of_data(data) -> the id rule."""
    errs = []

    def cnt(k, n=1):
        if counters is not None:
            counters[k] = counters.get(k, 0) + n

    S = {}
    for n in nodes:
        try:
            d = n.data_id
        except Exception as e:
            errs.append(f"data_id of {safe_repr(n)}: {e!r}")
            continue
        if expected_id is not None:
            e = expected_id(n)
            if e is not NotImplemented and e != d:
                errs.append(f"{safe_repr(n)} reports data_id {d!r}, the ledger derives {e!r}")
        S.setdefault(d, []).append(n)
    try:
        if tree.count_unique != len(S):
            errs.append(f"count_unique={tree.count_unique}, distinct ids among reachable nodes: {len(S)}")
    except Exception as e:
        errs.append(f"count_unique raised {e!r}")
    all_ids = list(S) + [d for d in probe_ids if d not in S]
    for d in all_ids:
        want = S.get(d, [])
        try:
            if d is None:
                continue
            got = tree.find_all(data_id=d)
            cnt("find_all(data_id)")
            if _idset(got) != _idset(want):
                errs.append(f"find_all(data_id={d!r}) returns {got!r}, nodes carrying that id: {want!r}")
            if not want and isinstance(got, list):
                # ... also an empty one: what the caller puts into it must not show up in later lookups (of any id)
                got.append("caller's own entry")
                again = tree.find_all(data_id=d)
                other = tree.find_all(data_id="another-absent-id")
                cnt("find_all(absent id) after the caller extended the previous empty result")
                if again or other:
                    errs.append(f"after the caller appended to the empty list returned by find_all(data_id={d!r}), lookups of absent ids "
                                f"return {again!r} / {other!r}")
            if len(want) > 1:
                # the result belongs to the caller: emptying it must not change what the next lookup returns
                got.clear()
                again = list(tree.find_all(data_id=d))
                cnt("find_all(data_id) after caller emptied the previous result")
                if _idset(again) != _idset(want):
                    errs.append(f"after the list returned by find_all(data_id={d!r}) was emptied by the caller, the same lookup returns {again!r}, "
                                f"nodes carrying that id: {want!r}")
            ff = tree.find_first(data_id=d)
            cnt("find_first(data_id)")
            if (ff is None) != (not want) or (ff is not None and not any(ff is w for w in want)):
                errs.append(f"find_first(data_id={d!r}) returns {ff!r}, nodes carrying that id: {want!r}")
            for k in (1, 2, 3, len(want), len(want) + 1):
                if k < 1:
                    continue
                g = list(tree.find_all(data_id=d, max_results=k))
                cnt("find_all(data_id,max_results)")
                if len(g) != min(k, len(want)) or len(set(map(id, g))) != len(g) or not set(map(id, g)) <= set(map(id, want)):
                    errs.append(f"find_all(data_id={d!r}, max_results={k}) returns {g!r}, nodes carrying that id: {want!r}")
                    break
        except Exception as e:
            errs.append(f"lookup of data_id {d!r} raised {e!r}")
        if len(errs) > 8:
            return errs
    for d, group in S.items():
        for n in group:
            try:
                cl = n.get_clones()
                cls = n.get_clones(add_self=True)
                cnt("clone_queries")
                if _idset(cl) != _idset([x for x in group if x is not n]):
                    errs.append(f"{safe_repr(n)}.get_clones() = {cl!r}, group is {group!r}")
                if _idset(cls) != _idset(group):
                    errs.append(f"{safe_repr(n)}.get_clones(add_self=True) = {cls!r}, group is {group!r}")
                if n.is_clone() != (len(group) > 1):
                    errs.append(f"{safe_repr(n)}.is_clone() = {n.is_clone()}, group size {len(group)}")
                if n is group[0] and len(group) > 1:
                    # the caller may do what it likes with a list it was given (here: empty it) - the next query is unaffected
                    cls.clear()
                    cl.reverse()
                    again = n.get_clones(add_self=True)
                    if _idset(again) != _idset(group) or _idset(list(tree.find_all(data_id=d))) != _idset(group):
                        errs.append(f"after a list returned by get_clones() was emptied by the caller, lookups of {d!r} return {again!r}")
            except Exception as e:
                errs.append(f"clone query on {safe_repr(n)} raised {e!r}")
        if len(errs) > 8:
            return errs
    # index access: a node_id resolves to its node; an id that is no node_id and carried by exactly one node resolves to it
    try:
        nids = {}
        for n in nodes:
            nids[n.node_id] = n
        k = 0
        for n in nodes:
            if k >= 10:
                break
            k += 1
            got = tree[n.node_id]
            cnt("getitem(node_id)")
            if got is not n:
                errs.append(f"tree[{n.node_id!r}] (a node_id) returns {got!r}, the node with that node_id is {safe_repr(n)}")
            d = n.data_id
            if isinstance(d, (int, str)) and not isinstance(d, bool) and d not in nids and len(S.get(d, [])) == 1:
                got = tree[d]
                cnt("getitem(data_id)")
                if got is not n:
                    errs.append(f"tree[{d!r}] (a data_id carried by one node) returns {got!r}, expected {safe_repr(n)}")
    except Exception as e:
        errs.append(f"index access raised {e!r}")
    if id_of_data is not None:
        datas = list(probe_data)
        for n in nodes:
            datas.append(n.data)
        seen = set()
        for data in datas:
            if id(data) in seen:
                continue
            seen.add(id(data))
            try:
                d = id_of_data(data)
            except Exception:
                continue
            want = S.get(d, [])
            try:
                if data is None:
                    continue
                got = list(tree.find_all(data))
                cnt("find_all(data)")
                if _idset(got) != _idset(want):
                    errs.append(f"find_all({data!r}) returns {got!r}, nodes with id {d!r}: {want!r}")
                ff = tree.find_first(data)
                if (ff is None) != (not want) or (ff is not None and not any(ff is w for w in want)):
                    errs.append(f"find_first({data!r}) returns {ff!r}, nodes with id {d!r}: {want!r}")
                isin = data in tree
                cnt("contains")
                if bool(isin) != bool(want):
                    errs.append(f"({data!r} in tree) is {isin}, nodes with id {d!r}: {want!r}")
            except Exception as e:
                errs.append(f"lookup of data {data!r} raised {e!r}")
            if len(errs) > 8:
                return errs
        # the same lookups restricted to a branch (Node.find_all / find_first with a data object or an id)
        done = 0
        for n in nodes:
            try:
                par = n.parent
                if par is None or done >= 12:
                    continue
                d = n.data_id
                if id_of_data(n.data) != d:
                    continue  # explicit id: the data object does not determine it
                done += 1
                below = []

                def rec(h):
                    for c in h.children:
                        below.append(c)
                        rec(c)

                rec(par)
                want = [x for x in below if x.data_id == d]
                got = list(par.find_all(n.data))
                got2 = list(par.find_all(data_id=d))
                ff = par.find_first(n.data)
                # the start node itself is part of the searched branch when add_self is given
                own = list(n.find_all(n.data, add_self=True))
                if not any(x is n for x in own):
                    errs.append(f"{safe_repr(n)}.find_all(<its own data>, add_self=True) returns {own!r} without the node itself")
                ff2 = par.find_first(data_id=d)
                if ff2 is None or not any(ff2 is w for w in want):
                    errs.append(f"{safe_repr(par)}.find_first(data_id={d!r}) returns {ff2!r}, nodes of that branch carrying the id: {want!r}")
                cnt("node.find_all(data)")
                if _idset(got) != _idset(want) or _idset(got2) != _idset(want):
                    errs.append(f"{safe_repr(par)}.find_all({n.data!r}) returns {got!r}, find_all(data_id={d!r}) returns {got2!r}, "
                                f"nodes of that branch carrying the id: {want!r}")
                elif ff is None or not any(ff is w for w in want):
                    errs.append(f"{safe_repr(par)}.find_first({n.data!r}) returns {ff!r}, nodes of that branch carrying the id: {want!r}")
            except Exception as e:
                errs.append(f"branch lookup of data {n.data!r} raised {e!r}")
            if len(errs) > 8:
                return errs
    return errs
