"""pytest plugin: runs the repository's own tests as a workload under the C01-C03 monitors.

Every public mutating method of Node/TypedNode/Tree/TypedTree (including the alias attributes,
which are separate bindings) is wrapped; when the outermost (depth-0) call returns *or raises*,
wf_graph / wf_siblings / wf_index are evaluated on the tree(s) involved.  Findings and counters
are written to $VMON_WF_OUT as JSON.  Loaded with `-p vmon.pytest_wf`.
"""

from __future__ import annotations

import functools
import json
import os
import threading

from . import wf

_state = threading.local()
FINDINGS = []
COUNTERS = {"calls": 0, "monitored": 0}
CURRENT = {"test": None}

NODE_METHODS = ["add_child", "add", "append_child", "prepend_child", "prepend_sibling", "append_sibling", "move_to", "remove",
                "remove_children", "set_data", "rename", "filter", "sort_children", "from_dict", "copy_to"]
TREE_METHODS = ["add_child", "add", "clear", "filter", "sort", "__delitem__", "copy_to"]


def _check(tree, where):
    if tree is None:
        return
    try:
        COUNTERS["monitored"] += 1
        errs, nodes = wf.wf_graph(tree)
        tag = "C01:wf_graph"
        if not errs:
            errs = wf.wf_siblings(tree, nodes)
            tag = "C03:wf_siblings"
        if not errs:
            errs = wf.wf_index(tree, nodes, probe_ids=["no-such-id"])
            tag = "C02:wf_index"
        if errs and len(FINDINGS) < 20:
            FINDINGS.append({"tag": tag, "msg": "; ".join(errs[:2]), "after": where, "test": CURRENT["test"]})
    except Exception as e:  # the monitor itself must never break a test
        if len(FINDINGS) < 20:
            FINDINGS.append({"tag": "harness", "msg": repr(e), "after": where, "test": CURRENT["test"]})


def _wrap(cls, name, is_tree):
    try:
        orig = cls.__dict__[name]
    except KeyError:
        return
    if getattr(orig, "_vmon_wrapped", False) or not callable(orig):
        return

    @functools.wraps(orig)
    def wrapper(self, *a, **kw):
        depth = getattr(_state, "depth", 0)
        _state.depth = depth + 1
        trees = []
        if depth == 0:
            COUNTERS["calls"] += 1
            t = self if is_tree else getattr(self, "_tree", None)
            if t is not None:
                trees.append(t)
            for x in list(a) + list(kw.values()):
                tt = getattr(x, "_tree", None) if not hasattr(x, "_node_by_id") else x
                if tt is not None and hasattr(tt, "_node_by_id") and not any(tt is y for y in trees):
                    trees.append(tt)
        try:
            return orig(self, *a, **kw)
        finally:
            _state.depth = depth
            if depth == 0:
                for t in trees:
                    _check(t, f"{cls.__name__}.{name}")

    wrapper._vmon_wrapped = True
    setattr(cls, name, wrapper)


def pytest_configure(config):
    from nutree.node import Node
    from nutree.tree import Tree
    from nutree.typed_tree import TypedNode, TypedTree

    for cls in (Node, TypedNode):
        for m in NODE_METHODS:
            _wrap(cls, m, False)
    for cls in (Tree, TypedTree):
        for m in TREE_METHODS:
            _wrap(cls, m, True)


def pytest_runtest_setup(item):
    CURRENT["test"] = item.nodeid


def pytest_sessionfinish(session, exitstatus):
    out = os.environ.get("VMON_WF_OUT")
    if out:
        with open(out, "w") as fp:
            json.dump({"findings": FINDINGS, "counters": COUNTERS, "exitstatus": int(exitstatus)}, fp)
