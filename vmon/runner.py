"""./check <id> [--tier quick|thorough] [--seed N] [--replay path]

Splits the property's case space into shards, runs each shard in its own
subprocess (16 at a time, hard timeout each), merges what the monitors
observed, writes evidence/<id>.json and prints the verdict.

exit 0  held on everything observed (KNOWN-FINDING lines for listed findings)
exit 1  VIOLATION property=<id> replay=<path>
exit 2  INCONCLUSIVE (deciding monitor not reached / too few cases / watchdog)
"""

from __future__ import annotations

import argparse
import dis
import importlib
import inspect
import json
import os
import shutil
import subprocess
import sys
import tempfile
import time

from . import REPO, VERIF, bootstrap
from .core import Result, mechanism_ranges


def load_known(prop: str) -> dict[str, str]:
    out = {}
    path = os.path.join(VERIF, "KNOWN_FINDINGS.txt")
    if not os.path.exists(path):
        return out
    for line in open(path, encoding="utf8"):
        line = line.strip()
        if not line.startswith("known:"):
            continue
        head, _, desc = line[len("known:"):].partition("::")
        fields = dict(f.split("=", 1) for f in head.split() if "=" in f)
        if fields.get("property") == prop and "key" in fields:
            out[fields["key"]] = desc.strip()
    return out


def executable_lines(func) -> set[int]:
    code = getattr(func, "__code__", None)
    out: set[int] = set()
    if code is None:
        return out
    todo = [code]
    while todo:
        c = todo.pop()
        for _, line in dis.findlinestarts(c):
            if line is not None:
                out.add(line)
        for k in c.co_consts:
            if inspect.iscode(k):
                todo.append(k)
    out.discard(code.co_firstlineno)
    return out


def resolve(spec: str):
    modname, qual = spec.split(":")
    obj = importlib.import_module(modname)
    for part in qual.split("."):
        obj = inspect.getattr_static(obj, part) if inspect.isclass(obj) else getattr(obj, part)
        if isinstance(obj, (classmethod, staticmethod)):
            obj = obj.__func__
        if isinstance(obj, property):
            obj = obj.fget
    return inspect.unwrap(obj) if callable(obj) else obj


def run_shards(modname, specs, jobs, tmp):
    pending = list(enumerate(specs))
    running = []
    outs = {}
    env = dict(os.environ)
    env.setdefault("PYTHONHASHSEED", "0")
    env["PYTHONDONTWRITEBYTECODE"] = "1"
    env["MAR10_NUTREE_VERIF"] = "1"
    env["PYTHONPATH"] = VERIF + os.pathsep + REPO
    while pending or running:
        while pending and len(running) < jobs:
            i, spec = pending.pop(0)
            sf = os.path.join(tmp, f"spec{i}.json")
            of = os.path.join(tmp, f"out{i}.json")
            lf = os.path.join(tmp, f"log{i}.txt")
            with open(sf, "w") as fp:
                json.dump(spec, fp)
            logfp = open(lf, "w")
            p = subprocess.Popen(
                # "pyopt" shards run the same workload under `python -O` (asserts compiled away): a library must not depend on
                # the side effects of its assert statements
                [sys.executable] + (["-O"] if spec.get("pyopt") else []) + ["-m", "vmon.worker", modname, sf, of],
                cwd=VERIF, env={**env, **spec["env"]} if spec.get("env") else env, stdout=logfp, stderr=subprocess.STDOUT,
            )
            hard = float(spec.get("timeout_s", 2 * float(spec.get("budget_s", 60)) + 120))
            running.append((i, spec, p, time.monotonic() + hard, of, lf, logfp))
        time.sleep(0.02)
        still = []
        for i, spec, p, dl, of, lf, logfp in running:
            rc = p.poll()
            if rc is None:
                if time.monotonic() > dl:
                    p.kill()
                    p.wait()
                    logfp.close()
                    outs[i] = ("timeout", spec, None, lf)
                else:
                    still.append((i, spec, p, dl, of, lf, logfp))
                continue
            logfp.close()
            if rc == 0 and os.path.exists(of):
                with open(of) as fp:
                    outs[i] = ("ok", spec, json.load(fp), lf)
            else:
                outs[i] = (f"rc={rc}", spec, None, lf)
        running = still
    return [outs[i] for i in sorted(outs)]


def _safe_stdio():
    for st in (sys.stdout, sys.stderr):
        try:
            st.reconfigure(errors="backslashreplace")  # witnesses may contain lone surrogates
        except Exception:
            pass


def main(argv=None):
    _safe_stdio()
    ap = argparse.ArgumentParser()
    ap.add_argument("prop")
    ap.add_argument("--tier", default=os.environ.get("VERIF_TIER") or "quick", choices=["quick", "thorough"])
    ap.add_argument("--seed", type=int, default=None)
    ap.add_argument("--replay", default=None)
    ap.add_argument("--jobs", type=int, default=int(os.environ.get("VMON_JOBS", "16")))
    ap.add_argument("--no-evidence", action="store_true")
    ap.add_argument("--dump-lines", default=None, help="write the executed nutree lines (file -> [line]) as JSON (tools/uncovered.py)")
    args = ap.parse_args(argv)
    if args.seed is None:
        try:
            args.seed = int(os.environ.get("VERIF_SEED") or 0)
        except ValueError:
            args.seed = 0
    prop = args.prop.upper()
    modname = prop.lower()
    bootstrap()
    mod = importlib.import_module(f"vmon.props.{modname}")
    t0 = time.monotonic()

    if args.replay:
        with open(args.replay) as fp:
            rp = json.load(fp)
        specs = [{"name": "replay", "replay": rp["case"], "budget_s": 600, "pyopt": bool(isinstance(rp["case"], dict) and rp["case"].get("pyopt")),
                  "env": (rp["case"].get("env") if isinstance(rp["case"], dict) else None) or {}}]
    else:
        specs = mod.shards(args.tier, args.seed)
        for s in specs:
            s.setdefault("tier", args.tier)
            s.setdefault("seed", args.seed)

    tmp = tempfile.mkdtemp(prefix=f"vmon-{modname}-")
    try:
        outs = run_shards(modname, specs, args.jobs, tmp)
        total = Result()
        shard_info = []
        for status, spec, data, lf in outs:
            info = {"name": spec.get("name"), "status": status}
            if data is None:
                tail = ""
                try:
                    tail = open(lf).read()[-800:]
                except OSError:
                    pass
                total.inconc(f"shard {spec.get('name')}: worker {status}: {tail}")
            else:
                total.merge_json(data)
                info.update(evaluations=data["evaluations"], wall_s=round(data["wall"], 2))
            shard_info.append(info)
    finally:
        shutil.rmtree(tmp, ignore_errors=True)

    # --- mechanism coverage ---------------------------------------------
    mech_cov = {}
    if not args.replay:
        for spec in getattr(mod, "MECH", []):
            try:
                fn, first, last = mechanism_ranges([spec])[spec]
                exe = {l for l in executable_lines(resolve(spec)) if first <= l <= last}
                hit = {l for l in total.lines.get(fn, ()) if first <= l <= last}
                mech_cov[spec] = {"file": fn, "lines": [first, last], "executable": len(exe),
                                  "hit": len(hit & exe) if exe else len(hit)}
                if not hit:
                    total.inconc(f"mechanism {spec} was never executed by the workload")
            except Exception as e:  # renamed/removed mechanism: cannot decide
                mech_cov[spec] = {"error": repr(e)}
                total.inconc(f"mechanism {spec} could not be located: {e!r}")

    if hasattr(mod, "post_merge"):
        mod.post_merge(total)

    # --- floors -----------------------------------------------------------
    distinct = len(total.digests)
    if not args.replay:
        floor = getattr(mod, "MIN_NONTRIVIAL", {}).get(args.tier, 2)
        if distinct < floor:
            total.inconc(f"only {distinct} distinct non-trivial cases (floor {floor})")
        for key, fl in getattr(mod, "MIN_COUNTERS", {}).get(args.tier, {}).items():
            if total.counters.get(key, 0) < fl:
                total.inconc(f"counter {key}={total.counters.get(key, 0)} below floor {fl}")

    # --- known findings ------------------------------------------------------
    listed = load_known(prop)
    unlisted = [k for k in total.known if k not in listed]
    for k in unlisted:
        total.n_violations += 1
        total.violations.insert(0, {"case": total.known_samples.get(k), "msg": f"defect '{k}' observed but not listed in KNOWN_FINDINGS.txt", "details": {}})

    # --- verdict -------------------------------------------------------------
    lines = []
    rc = 0
    if total.n_violations:
        rc = 1
        os.makedirs(os.path.join(VERIF, "replays"), exist_ok=True)
        for k, v in enumerate(total.violations[:5]):
            path = os.path.join("replays", f"{prop}-{args.tier}-s{args.seed}-{k}.json")
            with open(os.path.join(VERIF, path), "w") as fp:
                json.dump({"property": prop, "tier": args.tier, "seed": args.seed, **v}, fp, indent=1, default=repr)
            lines.append(f"VIOLATION property={prop} replay={path}")
            lines.append(f"  {v['msg'][:400]}")
    elif total.inconclusive:
        rc = 2
        for r in total.inconclusive[:10]:
            lines.append(f"INCONCLUSIVE property={prop} reason={r[:600]}")
    for k in sorted(total.known):
        if k in listed:
            lines.append(f"KNOWN-FINDING: property={prop} {k}: {listed[k]} (observed {total.known[k]}x)")
    wall = time.monotonic() - t0
    if rc == 0:
        lines.append(f"HELD property={prop} tier={args.tier} seed={args.seed} evaluations={total.evaluations} "
                     f"distinct_nontrivial={distinct} wall={wall:.1f}s")

    # --- evidence ----------------------------------------------------------
    if not args.replay and not args.no_evidence:
        cov = {
            "evaluations": total.evaluations,
            "distinct_nontrivial": distinct,
            "rule": getattr(mod, "RULE", ""),
            "samples": total.samples or [s.get("case") for s in total.violations[:2]] or ["<none>"],
            "exhaustive": bool(getattr(mod, "EXHAUSTIVE", {}).get(args.tier, False)) and not total.counters.get("exhaustive_cut"),
            "digests_dropped_beyond_cap": total.digests_dropped,
            "counters": dict(sorted(total.counters.items())),
            "mechanism_coverage": mech_cov,
            "known_findings_observed": {k: total.known[k] for k in sorted(total.known)},
            "distinct_observed": {k: len(v) for k, v in sorted(total.sets.items())},
            "shards": shard_info,
            "inconclusive": total.inconclusive,
            "verdict": {0: "held", 1: "violated", 2: "inconclusive"}[rc],
        }
        if hasattr(mod, "summarize"):
            try:
                cov.update(mod.summarize(total))
            except Exception as e:
                cov["summarize_error"] = repr(e)
        ev = {
            "property_id": prop,
            "tier": args.tier,
            "seed": args.seed,
            "level": getattr(mod, "LEVEL", "exploration"),
            "coverage": cov,
            "assumptions": getattr(mod, "ASSUMPTIONS", []),
            "wall_s": round(wall, 2),
            "violations": total.n_violations,
        }
        os.makedirs(os.path.join(VERIF, "evidence"), exist_ok=True)
        with open(os.path.join(VERIF, "evidence", f"{prop}.json"), "w") as fp:
            json.dump(ev, fp, indent=1, default=repr)
            fp.write("\n")
    if args.dump_lines:
        with open(args.dump_lines, "w") as fp:
            json.dump({f: sorted(v) for f, v in total.lines.items()}, fp)
    print("\n".join(lines))
    return rc


if __name__ == "__main__":
    sys.exit(main())
