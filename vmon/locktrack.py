"""Waits-for-graph deadlock monitor for the locks the library creates (used by C18).

`install()` must run *before* nutree is imported: while nutree (and what it imports) is being
imported, `threading.Lock` / `threading.RLock` hand out tracking wrappers, so module-level locks are
tracked; afterwards the originals are restored and every nutree module that did `import threading`
gets a shim whose Lock/RLock are the tracking ones (locks created at run time, e.g. per tree).

A tracked lock knows its owner thread.  When a thread is about to block on a tracked lock, the
monitor follows owner -> lock that owner is waiting for -> its owner ... ; a cycle is a deadlock
among tracked locks and is reported by raising DeadlockDetected in the thread that closed the cycle
(instead of blocking for ever).  The decision uses no clock.
"""

from __future__ import annotations

import threading
import types

_real_Lock = threading.Lock
_real_RLock = threading.RLock
_state_mutex = _real_Lock()
_waiting: dict[int, "Tracked"] = {}   # thread id -> lock it is blocked on
DEADLOCKS: list[str] = []


class DeadlockDetected(RuntimeError):
    pass


class Tracked:
    """A lock the library created.  Optionally an event log is attached (C18): then every try / blocked / acquired / released
    - also the release and re-acquisition that `threading.Condition.wait()` performs behind the back of `with lock:` - is
    recorded with a logical clock, a bounded wait on a lock that another thread holds expires at once (virtual time), and an
    owner that would block on its own non-reentrant lock gets an exception instead of hanging."""
    reentrant = False
    log = None
    name = "lock"
    after_release = None  # optional callable(thread id, remaining depth), run right after the lock was given up (C18 schedule R)

    def __init__(self):
        self._inner = _real_RLock() if self.reentrant else _real_Lock()
        self._owner = None
        self._count = 0

    @property
    def inner(self):
        return self._inner

    def _cycle_from(self, me):
        """Follow the waits-for chain starting at this lock's owner; return the chain if it leads back to `me`."""
        chain = []
        lock = self
        seen = set()
        while lock is not None:
            owner = lock._owner
            if owner is None or id(lock) in seen:
                return None
            seen.add(id(lock))
            chain.append((lock, owner))
            if owner == me:
                return chain
            lock = _waiting.get(owner)
        return None

    def acquire(self, blocking=True, timeout=-1):
        me = threading.get_ident()
        log = self.log
        if log is not None:
            log.add("try", me, self.name)
        if self._inner.acquire(False):
            self._owner = me
            self._count += 1
            if log is not None:
                log.add("acquired", me, self.name, self._count)
            return True
        if not blocking:
            return False
        if log is not None:
            if not self.reentrant and self._owner == me:
                log.add("self-deadlock", me, self.name)
                raise DeadlockDetected("the owning thread would block on its own lock (lock is not re-entrant)")
            log.add("blocked", me, self.name)
            if timeout is not None and timeout >= 0:
                # virtual time: a bounded wait may always expire while another thread is inside its critical section
                log.add("timed-out", me, self.name)
                import time as _time

                _time.sleep(0.001)
                return False
        if self.reentrant and self._owner == me:  # cannot happen for a real RLock, kept for safety
            self._inner.acquire()
            self._count += 1
            return True
        with _state_mutex:
            if not self.reentrant and self._owner == me:
                msg = "a thread blocks on a non-reentrant lock it already holds"
                DEADLOCKS.append(msg)
                raise DeadlockDetected(msg)
            chain = self._cycle_from(me)
            if chain:
                msg = "lock-order inversion: " + " -> ".join(f"{type(l).__name__}@{id(l) % 10000} held by thread {o % 10000}" for l, o in chain) \
                      + f" <- wanted by thread {me % 10000}"
                DEADLOCKS.append(msg)
                raise DeadlockDetected(msg)
            _waiting[me] = self
        try:
            if timeout is not None and timeout >= 0:
                ok = self._inner.acquire(True, timeout)
            else:
                ok = self._inner.acquire()
        finally:
            with _state_mutex:
                _waiting.pop(me, None)
        if ok:
            self._owner = me
            self._count += 1
            if log is not None:
                log.add("acquired", me, self.name, self._count)
        return ok

    def release(self):
        self._count -= 1
        d = self._count
        if self._count <= 0:
            self._owner = None
            self._count = 0
        if self.log is not None:
            self.log.add("released", threading.get_ident(), self.name, d)
        self._inner.release()
        cb = self.after_release
        if cb is not None:
            cb(threading.get_ident(), d)

    # -- protocol used by threading.Condition(lock).wait(): gives the lock up completely and takes it back afterwards --
    def _release_save(self):
        me = threading.get_ident()
        saved = (self._owner, self._count)
        self._owner, self._count = None, 0
        if self.log is not None:
            self.log.add("released", me, self.name, 0, "by Condition.wait()")
        if self.reentrant:
            return (self._inner._release_save(), saved)
        self._inner.release()
        return (None, saved)

    def _acquire_restore(self, state):
        inner_state, saved = state
        if self.reentrant:
            self._inner._acquire_restore(inner_state)
        else:
            self._inner.acquire()
        self._owner, self._count = saved
        if self.log is not None:
            self.log.add("acquired", threading.get_ident(), self.name, self._count, "after Condition.wait()")

    def _is_owned(self):
        return self._owner == threading.get_ident()

    def locked(self):
        return self._owner is not None

    __enter__ = acquire

    def __exit__(self, *a):
        self.release()

    def __getattr__(self, name):  # _is_owned, _release_save, ... for Condition
        return getattr(self._inner, name)


class TrackedLock(Tracked):
    reentrant = False


class TrackedRLock(Tracked):
    reentrant = True


def _lock_factory(*a, **kw):
    """Only locks created by code of the library are tracked; everybody else gets a real lock."""
    import sys

    caller = sys._getframe(1).f_globals.get("__name__", "")
    return TrackedLock() if caller.split(".")[0] == "nutree" else _real_Lock(*a, **kw)


def _rlock_factory(*a, **kw):
    import sys

    caller = sys._getframe(1).f_globals.get("__name__", "")
    return TrackedRLock() if caller.split(".")[0] == "nutree" else _real_RLock(*a, **kw)


def _shim():
    m = types.ModuleType("threading")
    m.__dict__.update(threading.__dict__)
    m.Lock = _lock_factory
    m.RLock = _rlock_factory
    return m


def install(import_library):
    """import_library(): imports nutree and returns the list of its loaded modules."""
    threading.Lock = _lock_factory
    threading.RLock = _rlock_factory
    try:
        mods = import_library()
    finally:
        threading.Lock = _real_Lock
        threading.RLock = _real_RLock
    shim = _shim()
    n = 0
    for mod in mods:
        if getattr(mod, "threading", None) is threading:
            mod.threading = shim
            n += 1
    return n
