"""Source trees, mappers and shape comparison for the (de)serialisation checks C05 and C12."""

from __future__ import annotations

import zipfile

from . import gen

class StrSub(str):
    """An instance of a str subclass (as members of a StrEnum are): stored and loaded like the equal str."""


UNI = ["a", "b", "ä", "😀", "日本", 'q"t', "a b", "c", "", "lone\udc80surrogate", StrSub("sub-str")]
KINDS = ["k1", "k2", "k3"]
FLAVOURS = ["plain_str", "str_ids", "str_hook", "obj_cb", "obj_derived", "obj_default", "typed_obj_default", "dw", "typed_str", "typed_str_ids",
            "typed_obj", "typed_derived", "fs", "typed_mixed", "mixed_ids", "fwd_obj"]

KEY_MAPS = {"default": True, "off": False,
            "custom": {"data_id": "i", "str": "s", "kind": "k", "type": "t", "name": "n", "age": "a"}}
VALUE_MAPS = {"default": True, "off": False,
              "custom": {"type": ["person", "dept"], "role": ["dept", "unused", "person", "dept"], "title": [f"d{i}" for i in range(64)],
                         "age": list(range(60, 10, -1))}}  # age: int values; role: the values of "type" at other positions
COMPRESSIONS = {"off": False, "true": True, "stored": zipfile.ZIP_STORED, "deflated": zipfile.ZIP_DEFLATED,
                "bzip2": zipfile.ZIP_BZIP2, "lzma": zipfile.ZIP_LZMA}
TARGETS = ["path", "stream"]


#: a nested value whose inner keys/values look like everything the key and value maps know
NEST = {"type": "person", "role": "dept", "name": "inner", "data_id": "x", "str": "y", "kind": "k1", "age": 60, "title": "d1",
        "t": 1, "s": 0, "i": 2, "k": 0}


class Obj:
    def __init__(self, name, typ, guid, age=None):
        self.name = name
        self.typ = typ
        self.guid = guid
        self.age = age

    def key(self):
        return ("Obj", self.name, self.typ, self.guid, self.age)

    def __repr__(self):
        return f"Obj<{self.name},{self.typ},{self.guid}>"


class PlainObj:
    """No __eq__/__hash__: identity semantics, default data_id = hash(obj)."""

    def __init__(self, name, typ):
        self.name = name
        self.typ = typ

    def __repr__(self):
        return f"PlainObj<{self.name}>"


_RECORD = []


def _record_class():
    """A user subclass of nutree's DictWrapper (created after nutree was imported)."""
    if not _RECORD:
        from nutree.common import DictWrapper

        class Record(DictWrapper):
            pass

        _RECORD.append(Record)
    return _RECORD[0]


class FwdObj(PlainObj):
    """Data for a tree with forward_attrs=True: the object has attributes named like node attributes (`kind`, `data_id`);
    they are the data's business and never part of the node's own description."""

    def __init__(self, name, typ):
        super().__init__(name, typ)
        self.kind = "data-kind-" + name
        self.data_id = "data-own-id"


class FalsyObj(Obj):
    """A legal data object that happens to be falsy (like an empty container)."""

    def __bool__(self):
        return False

    def key(self):
        return ("FalsyObj",) + Obj.key(self)[1:]


def calc_cb(tree, data):
    return data.guid if isinstance(data, Obj) else hash(data)


def ser_cb(node, data):
    d = node.data
    if isinstance(d, Obj):
        data["type"] = d.typ
        data["role"] = d.typ  # same values as "type": a value map may list them in another order
        data["name"] = d.name
        if d.age is not None:
            data["age"] = d.age
    return data


def ser_cb_none(node, data):
    """The documented alternative: fill the dict in place and return None."""
    ser_cb(node, data)
    return None


def deser_cb(parent, data):
    if "type" in data:
        cls = FalsyObj if data["name"].startswith("falsy") else Obj
        return cls(data["name"], data["type"], data["data_id"], data.get("age"))
    return data["str"]


def deser_cb_consuming(parent, data):
    """A load mapper that consumes the entry dict while it builds the object."""
    if "type" in data:
        name = data.pop("name")
        typ = data.pop("type")
        did = data.pop("data_id")
        age = data.pop("age", None)
        data.pop("kind", None)
        cls = FalsyObj if name.startswith("falsy") else Obj
        return cls(name, typ, did, age)
    return data.pop("str")


def str_hook(tree, data):
    """An id hook that also maps *strings* to ids other than hash()."""
    return "id:" + data if isinstance(data, str) else hash(data)


def derived_classes():
    from nutree import Tree
    from nutree.typed_tree import TypedTree

    class MyTree(Tree):
        DEFAULT_KEY_MAP = {**Tree.DEFAULT_KEY_MAP, "type": "t", "name": "n", "age": "a"}
        DEFAULT_VALUE_MAP = {"type": ["person", "dept"]}

        def calc_data_id(self, data):
            return data.guid if hasattr(data, "guid") else hash(data)

        def serialize_mapper(self, node, data):
            return ser_cb(node, data)

        @staticmethod
        def deserialize_mapper(parent, data):
            return deser_cb(parent, data)

    class MyTypedTree(TypedTree):
        DEFAULT_KEY_MAP = {**TypedTree.DEFAULT_KEY_MAP, "type": "t", "name": "n", "age": "a"}
        DEFAULT_VALUE_MAP = {"type": ["person", "dept"]}

        def calc_data_id(self, data):
            return data.guid if hasattr(data, "guid") else hash(data)

        def serialize_mapper(self, node, data):
            return ser_cb(node, data)

        @staticmethod
        def deserialize_mapper(parent, data):
            return deser_cb(parent, data)

    return MyTree, MyTypedTree


def build_source(flavour, f, rng):
    """Returns (tree, save_kwargs, load_class, load_kwargs)."""
    # a fifth of the trees never see a clone being *added*: their only clones come into being afterwards, when a node is given
    # the data (and id) of another one by set_data()
    late = flavour not in ("str_ids", "typed_str_ids", "typed_obj_default") and rng.random() < 0.2
    gen.FORCE_UNIQUE[0] = late
    gen.CREATION[0] = "bfs" if rng.random() < 0.35 else "pre"  # a third of the sources are created level by level
    try:
        t, save_kw, load_cls, load_kw = _build_source(flavour, f, rng)
    finally:
        gen.FORCE_UNIQUE[0] = False
        gen.CREATION[0] = "pre"
    if late and t.count >= 3 and t.count == t.count_unique:
        nodes = list(t)
        for _ in range(3):
            a, b = rng.sample(nodes, 2)
            if a.parent is b.parent or any(c.data_id == a.data_id for c in (b.parent.children if b.parent is not None else t.children)):
                continue
            if any(x is b for x in a.get_parent_list()) or any(x is a for x in b.get_parent_list()) or b.children:
                continue  # keep it simple: the re-labelled node is a leaf outside the other one's branch
            try:
                b.set_data(a.data, data_id=a.data_id)
            except Exception:
                continue
            break
    return t, save_kw, load_cls, load_kw


def _build_source(flavour, f, rng):
    from nutree import Tree
    from nutree.common import DictWrapper
    from nutree.typed_tree import TypedTree

    n = gen.size(f)
    par = gen.parents(f)
    typed = flavour.startswith("typed")
    kinds = [rng.choice(KINDS) for _ in range(n)]
    # every node gets its own kind *object* (equal strings, distinct identities) - kinds built at
    # run time or read from a file are never the interned literals
    kind = (lambda i: "".join([kinds[i][0], kinds[i][1:]])) if typed else None
    MyTree, MyTypedTree = derived_classes()
    save_kw, load_kw = {}, {}
    if flavour in ("plain_str", "typed_str"):
        cls = TypedTree if typed else Tree
        t = cls("src")
        labs = gen.clone_labeling(rng, f, UNI) or [f"n{i}" for i in range(n)]
        gen.build(t, f, lambda i: labs[i], kind=kind)
        load_cls = cls
    elif flavour == "str_hook":
        # string data in a tree whose id hook gives strings a non-hash id: the ids are custom and must survive
        t = Tree("src", calc_data_id=str_hook)
        labs = gen.clone_labeling(rng, f, ["a", "b", "c", "ä"]) or [f"n{i}" for i in range(n)]
        gen.build(t, f, lambda i: labs[i])
        load_cls = Tree
        load_kw["mapper"] = lambda parent, data: data["str"]
    elif flavour in ("str_ids", "typed_str_ids"):
        cls = TypedTree if typed else Tree
        t = cls("src")
        labs, ids = [], []
        for i in range(n):
            used = {ids[j] for j in range(i) if par[j] == par[i]}
            for _ in range(60):
                lab = rng.choice(["a", "b", "c", "ä"])
                # an explicit id identifies the data object: the same id is never used for different data
                did = rng.choice([None, lab + "#1", lab + "#2", 100 + ord(lab[0]), 0 if lab == "a" else None, "" if lab == "b" else None])
                eff = hash(lab) if did is None else did
                if eff not in used:
                    break
            else:
                lab, did, eff = f"n{i}", None, hash(f"n{i}")
            labs.append(lab)
            ids.append(eff)
        gen.build(t, f, lambda i: labs[i], kind=kind, data_id=lambda i: None if ids[i] == hash(labs[i]) else ids[i])
        load_cls = cls
        load_kw["mapper"] = lambda parent, data: data["str"]
    elif flavour in ("obj_cb", "typed_obj", "obj_derived", "typed_derived"):
        derived = flavour.endswith("derived")
        if derived:
            cls = MyTypedTree if typed else MyTree
            t = cls("src")
        else:
            cls = TypedTree if typed else Tree
            t = cls("src", calc_data_id=calc_cb)
            save_kw["mapper"] = ser_cb_none if rng.random() < 0.35 else ser_cb
            load_kw["mapper"] = deser_cb_consuming if rng.random() < 0.4 else deser_cb
        pool = [(FalsyObj if rng.random() < 0.25 else Obj)(f"nm{i}ä", rng.choice(["person", "dept"]), rng.choice([f"g{i}", 1000 + i]),
                                                           rng.choice([None, 20 + i]))
                for i in range(max(1, n // 2 + 1))]
        for o in pool:
            if isinstance(o, FalsyObj):
                o.name = "falsy" + o.name
        labs = gen.clone_labeling(rng, f, list(range(len(pool))))
        if labs is None:
            pool = [Obj(f"nm{i}", "person", f"g{i}") for i in range(n)]
            labs = list(range(n))
        gen.build(t, f, lambda i: pool[labs[i]], kind=kind)
        load_cls = cls
    elif flavour in ("obj_default", "typed_obj_default", "fwd_obj"):
        # plain objects keyed by their default (identity) hash: a clone is the *same* object added again; after a
        # round trip the occurrences of one object must again share one data object (clone group preserved)
        cls = TypedTree if typed else Tree
        t = cls("src", forward_attrs=True) if flavour == "fwd_obj" else cls("src")
        OC = FwdObj if flavour == "fwd_obj" else PlainObj
        pool = [OC(f"po{i}", rng.choice(["person", "dept"])) for i in range(max(1, n // 2 + 1))]
        labs = gen.clone_labeling(rng, f, list(range(len(pool))))
        if labs is None:
            pool = [OC(f"po{i}", "person") for i in range(n)]
            labs = list(range(n))
        # every occurrence of one object has the same kind: the documented layout stores a repeated occurrence of
        # *differing* kind in full, which for identity-keyed objects cannot preserve the sharing (not demanded here)
        okind = (lambda i: "".join(["k", str(labs[i] % 3)])) if typed else None
        gen.build(t, f, lambda i: pool[labs[i]], kind=okind)
        save_kw["mapper"] = lambda node, data: {**data, "type": node.data.typ, "name": node.data.name}
        load_kw["mapper"] = lambda parent, data: PlainObj(data["name"], data["type"])
        load_cls = cls
    elif flavour in ("typed_mixed", "mixed_ids"):
        # objects and strings side by side; the mappers tag *every* dict entry (string nodes of a typed tree and string nodes
        # with an explicit id are dict entries, too) and the load mapper insists on its tag
        cls = TypedTree if typed else Tree
        t = cls("src", calc_data_id=calc_cb)
        pool = [Obj(f"nm{i}", rng.choice(["person", "dept"]), f"g{i}", None) for i in range(max(1, n // 3 + 1))]
        pool += [f"s{i}" for i in range(max(1, n // 3 + 1))]
        labs = gen.clone_labeling(rng, f, list(range(len(pool))))
        if labs is None:
            pool = [Obj(f"nm{i}", "person", f"g{i}") if i % 2 else f"s{i}" for i in range(n)]
            labs = list(range(n))
        gen.build(t, f, lambda i: pool[labs[i]], kind=kind,
                  data_id=(lambda i: f"sid-{pool[labs[i]]}" if isinstance(pool[labs[i]], str) else None) if flavour == "mixed_ids" else None)

        def ser_mixed(node, data):
            ser_cb(node, data)
            data["tag"] = "o" if isinstance(node.data, Obj) else "s"
            data["nest"] = dict(NEST)  # a structured value: the maps apply to the entry's own keys, never inside a value
            data["opt"] = 0 if isinstance(node.data, Obj) else None  # None / 0 are values like any other: the key is stored
            return data

        def deser_mixed(parent, data):
            if data.get("nest") != NEST:
                raise ValueError(f"structured value came back altered: {data.get('nest')!r}")
            if data["opt"] is not (0 if data["tag"] == "o" else None):  # KeyError if the key was not stored
                raise ValueError(f"attribute 'opt' came back as {data['opt']!r}")
            if data["tag"] == "o":  # KeyError if an entry was written without consulting the mapper
                return Obj(data["name"], data["type"], data["data_id"], data.get("age"))
            return data["str"]

        save_kw["mapper"] = ser_mixed
        load_kw["mapper"] = deser_mixed
        load_cls = cls
    elif flavour == "dw":
        t = Tree("src")
        # wrapped dicts may contain keys that look like node attributes (`kind`, `name`): they are ordinary user keys
        # half of the trees use an application subclass of the wrapper (the inherited mapper pair, referenced through that
        # subclass, rebuilds objects of the subclass); one value is a float that JSON spells `Infinity`
        DW = _record_class() if rng.random() < 0.5 else DictWrapper
        dicts = [{"title": f"d{i}", "num": i, **({"kind": "fruit", "name": f"n{i}"} if i % 2 else {}), **({"limit": float("inf")} if i % 3 == 1 else {})}
                 for i in range(max(1, n // 2 + 1))]
        wrappers = [DW(d) for d in dicts]
        labs = gen.clone_labeling(rng, f, list(range(len(dicts))))
        if labs is None:
            wrappers = [DW({"title": f"d{i}"}) for i in range(n)]
            labs = list(range(n))
        # a clone is either the same wrapper object or another wrapper around the same dict
        gen.build(t, f, lambda i: wrappers[labs[i]] if rng.random() < 0.5 else DW(wrappers[labs[i]]._dict))
        save_kw["mapper"] = DW.serialize_mapper
        load_kw["mapper"] = DW.deserialize_mapper
        load_cls = Tree
    elif flavour == "fs":
        from nutree.fs import FileSystemEntry, FileSystemTree

        t = FileSystemTree("src")
        # the same file name occurs in several folders with different sizes; a clone is the same entry object added twice
        pool = []
        for i in range(max(1, n // 2 + 1)):
            nm = rng.choice(["__init__.py", "a.txt", "ä.dat", f"f{i}"])
            if rng.random() < 0.3:
                pool.append(FileSystemEntry(nm + "_dir", is_dir=True))
            else:
                pool.append(FileSystemEntry(nm, size=rng.randint(0, 5000), mdate=1_600_000_000 + rng.random() * 1e6))
        labs = gen.clone_labeling(rng, f, list(range(len(pool))))
        if labs is None:
            pool = [FileSystemEntry(f"f{i}", size=i, mdate=1.5e9 + i) for i in range(n)]
            labs = list(range(n))
        gen.build(t, f, lambda i: pool[labs[i]])
        load_cls = FileSystemTree
        if rng.random() < 0.5:
            save_kw["mapper"] = FileSystemTree.serialize_mapper
            load_kw["mapper"] = FileSystemTree.deserialize_mapper
    else:
        raise KeyError(flavour)
    return t, save_kw, load_cls, load_kw


def data_key(d):
    from nutree.common import DictWrapper

    if isinstance(d, Obj):
        return d.key()
    if isinstance(d, PlainObj):
        return ("PlainObj", d.name, d.typ)
    if isinstance(d, DictWrapper):
        return ("DW" if type(d) is DictWrapper else type(d).__name__, tuple(sorted(d._dict.items())))
    if type(d).__name__ == "FileSystemEntry":
        return ("FSE", d.name, bool(d.is_dir), d.size, d.mdate)
    return d


def _node_kind(c):
    """the kind of a *typed* node (on a plain node of a forward_attrs tree, `.kind` would be the data object's attribute)"""
    from nutree.typed_tree import TypedNode

    return c.kind if isinstance(c, TypedNode) else None


def shape(t):
    """Observable shape for comparing source and loaded tree: (data key, id spec, kind,
    clone group, children).  id spec: 'H' if the id is hash(own data) (default ids of salted or
    identity hashes legitimately differ between objects), else the id itself."""
    groups = {}

    def rec(h):
        out = []
        for c in h.children:
            did = c.data_id
            try:
                default = did == hash(c.data)
            except TypeError:
                default = False
            g = groups.setdefault(did, len(groups))
            out.append((data_key(c.data), "H" if default else (type(did).__name__, did), _node_kind(c), g, rec(c)))
        return out

    return rec(t)


def key_map_for(flavour, name):
    """The custom key map must not use short keys that clash with keys of the entries themselves
    (FileSystemTree's mappers already use n/s/m/d)."""
    import copy

    if flavour == "fs" and name == "custom":
        return {"n": "N", "m": "M", "data_id": "i"}
    if flavour == "dw" and name == "custom":
        return {"title": "T", "num": "N", "data_id": "i"}
    return copy.deepcopy(KEY_MAPS[name])


def option_tuples():
    out = []
    for km in KEY_MAPS:
        for vm in VALUE_MAPS:
            for comp in COMPRESSIONS:
                for tgt in TARGETS:
                    out.append((km, vm, comp, tgt))
    return out
