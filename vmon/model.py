"""Independent reference model of nutree's mutating API (DESIGN.md appendix A).

Deliberately naive: plain records and lists, no indexes, no parent pointers
(parents are found by search), identity everywhere.  Written from the
docstrings and the user guide, shares no code with nutree.

Every operation returns an Outcome:
    Ok(ret)        the model state was changed; `ret` describes the return value
    Refuse(kind)   the documentation says the call is invalid; model unchanged
    Unspec(why)    the documentation does not determine the outcome; model unchanged
"""

from __future__ import annotations

ANY = object()  # "not compared" marker (meta of copies)

UNIQ, AMBIG, POS, TARGET, UNSUP, INVALID, KEYERR = (
    "uniqueness", "ambiguous", "invalid-position", "invalid-target", "unsupported", "invalid", "keyerror")


class Ok:
    kind = "ok"

    def __init__(self, ret=("none",), created=(), removed=(), sorted_parents=()):
        self.ret = ret
        self.created = list(created)
        self.removed = list(removed)
        self.sorted_parents = list(sorted_parents)  # [(parent MNode|None, key fn name, reverse)]


class Refuse:
    kind = "refuse"

    def __init__(self, why, note=""):
        self.why = why
        self.note = note


class Unspec:
    kind = "unspec"

    def __init__(self, note=""):
        self.note = note


class MNode:
    __slots__ = ("uid", "data", "data_id", "kind", "meta", "children", "node_id")

    def __init__(self, uid, data, data_id, kind=None, meta=None, node_id=None):
        self.uid = uid
        self.data = data
        self.data_id = data_id
        self.kind = kind
        self.meta = meta
        self.children = []
        self.node_id = node_id

    def __repr__(self):
        return f"M{self.uid}<{self.data!r} id={self.data_id!r}{' k=' + self.kind if self.kind else ''}>"


class MTree:
    def __init__(self, typed=False, rule=hash, default_kind="child"):
        self.typed = typed
        self.rule = rule
        self.top: list[MNode] = []
        self.next_uid = 1
        self.default_kind = default_kind

    # -- structure helpers (search based) ------------------------------------
    def new(self, data, data_id, kind=None, meta=None, node_id=None) -> MNode:
        n = MNode(self.next_uid, data, data_id, kind, meta, node_id)
        self.next_uid += 1
        return n

    def all(self) -> list[MNode]:
        out = []

        def rec(lst):
            for c in lst:
                out.append(c)
                rec(c.children)

        rec(self.top)
        return out

    def find(self, uid) -> MNode:
        for n in self.all():
            if n.uid == uid:
                return n
        raise KeyError(uid)

    def has(self, uid) -> bool:
        return any(n.uid == uid for n in self.all())

    def kids(self, p: MNode | None) -> list[MNode]:
        return self.top if p is None else p.children

    def parent_of(self, n: MNode):
        """Returns the parent MNode, or None when n is a top node."""
        if any(c is n for c in self.top):
            return None
        for p in self.all():
            if any(c is n for c in p.children):
                return p
        raise KeyError(n)

    def branch(self, n: MNode) -> list[MNode]:
        out = [n]
        for c in n.children:
            out += self.branch(c)
        return out

    def inside(self, x: MNode | None, n: MNode) -> bool:
        """x is n or a descendant of n (x None = root: never inside)."""
        return x is not None and any(b is x for b in self.branch(n))

    def id_of(self, data, data_id=None):
        return data_id if data_id is not None else self.rule(data)

    def with_id(self, did) -> list[MNode]:
        return [n for n in self.all() if n.data_id == did]

    # -- positions (A.1) -------------------------------------------------------
    def _position(self, K: list[MNode], before):
        """before: None | False | True | ("idx", i) | ("node", MNode).  Returns index,
        Refuse or Unspec.  K = target children without the inserted node."""
        if before is None or before is False:
            return len(K)
        if before is True:
            return 0
        tag, v = before
        if tag == "idx":
            if 0 <= v < len(K) or (v == 0 and not K):
                return v
            if -len(K) <= v < 0:
                return len(K) + v  # "the existing child with this index", counted from the end as everywhere in Python
            return Unspec("index outside -len..len-1")
        if tag == "node":
            for i, c in enumerate(K):
                if c is v:
                    return i
            return Refuse(POS, "before-node is not a child of the target")
        if tag == "raw":
            return Refuse(POS, "`before` is neither None, a bool, an int nor a node")
        return Unspec("unknown before")

    def _refuse_uniq(self, K, before):
        """A collision must be refused with the uniqueness error - unless the call is
        invalid for a second reason too, in which case either error is acceptable."""
        pos = self._position(K, before)
        if isinstance(pos, Refuse):
            return Refuse(INVALID, "collision and invalid position")
        return Refuse(UNIQ)

    # -- creating nodes (A.2) --------------------------------------------------------
    def add(self, p: MNode | None, data, before=None, data_id=None, kind=None, node_id=None):
        did = self.id_of(data, data_id)
        K = self.kids(p)
        if node_id is not None and any(n.node_id == node_id for n in self.all()):
            return Unspec("duplicate node_id")
        if any(c.data_id == did for c in K):
            return self._refuse_uniq(K, before)
        pos = self._position(K, before)
        if not isinstance(pos, int):
            return pos
        n = self.new(data, did, (kind or self.default_kind) if self.typed else None, None, node_id)
        K.insert(pos, n)
        return Ok(("node", n), created=[n])

    def add_after(self, sib: MNode, data, data_id=None, kind=None):
        p = self.parent_of(sib)
        K = self.kids(p)
        did = self.id_of(data, data_id)
        if any(c.data_id == did for c in K):
            return Refuse(UNIQ)
        i = next(k for k, c in enumerate(K) if c is sib)
        n = self.new(data, did, (kind or self.default_kind) if self.typed else None)
        K.insert(i + 1, n)
        return Ok(("node", n), created=[n])

    def _copy_branch(self, src: MNode, deep: bool, kind=None) -> MNode:
        n = self.new(src.data, src.data_id, (kind or src.kind) if self.typed else None, ANY)
        if deep:
            for c in src.children:
                n.children.append(self._copy_branch(c, True))
        return n

    def add_node(self, p: MNode | None, src: MNode, deep=False, before=None, kind=None, src_tree: "MTree | None" = None, node_id=None):
        """P.add_child(S) - S from this tree (src_tree None) or another model tree."""
        K = self.kids(p)
        if node_id is not None and deep:
            return Refuse(INVALID, "ids are not allowed for deep copies")
        if any(c.data_id == src.data_id for c in K):
            return self._refuse_uniq(K, before)
        pos = self._position(K, before)
        if not isinstance(pos, int):
            return pos
        if node_id is not None:
            if any(x.node_id == node_id for x in self.all()):
                return Unspec("duplicate node_id")
        n = self._copy_branch(src, deep, kind)  # snapshot of the branch *before* inserting
        n.node_id = node_id
        K.insert(pos, n)
        return Ok(("node", n), created=self.branch(n))

    def add_many(self, p: MNode | None, sources: list[MNode], deep: bool, before=None, ret="first"):
        """add(tree) / copy_to(add_self=False): copies appear in source order as one run."""
        K = self.kids(p)
        ids = [s.data_id for s in sources]
        if len(set(ids)) != len(ids) or any(c.data_id in ids for c in K):
            return self._refuse_uniq(K, before)
        pos = self._position(K, before)
        if not isinstance(pos, int):
            return pos
        news = [self._copy_branch(s, deep) for s in sources]
        K[pos:pos] = news
        created = [b for n in news for b in self.branch(n)]
        if not news:
            return Unspec("nothing to copy")
        if ret == "first":
            return Ok(("node", news[0]), created=created)
        return Ok(("any",) if ret == "any" else ("none",), created=created)

    # -- moving and removing (A.3) -------------------------------------------------------
    def move(self, n: MNode, target: MNode | None, before=None):
        if self.typed:
            return Refuse(UNSUP)
        if self.inside(target, n):
            return Refuse(TARGET, "target is the node itself or one of its descendants")
        K = [c for c in self.kids(target) if c is not n]
        if any(c.data_id == n.data_id for c in K):
            if before is not None and before is not False and before is not True and before[0] == "node" and before[1] is n:
                return Refuse(INVALID, "collision and invalid position")
            return self._refuse_uniq(K, before)
        oldp = self.parent_of(n)
        if oldp is target and before is not None and before is not False and before is not True and before[0] == "idx":
            # "before the existing child with this index": the documentation does not say whether the index counts the
            # moved node.  The effect is specified where both readings agree, unspecified where they differ.
            L = self.kids(target)
            v = before[1]
            posA = self._position(K, before)
            if not isinstance(posA, int) or not (-len(L) <= v < len(L)):
                return Unspec("index for a move within the same parent")
            c = L[v]
            if c is n:
                return Unspec("index for a move within the same parent names the moved node itself")
            posB = next(i for i, x in enumerate(K) if x is c)
            if posA != posB:
                return Unspec("index for a move within the same parent: the two readings differ")
        if before is not None and before is not False and before is not True and before[0] == "node" and before[1] is n:
            return Refuse(POS, "before is the moved node itself")
        pos = self._position(K, before)
        if not isinstance(pos, int):
            return pos
        old = self.kids(oldp)
        del old[next(i for i, c in enumerate(old) if c is n)]
        K2 = self.kids(target)
        K2.insert(pos, n)
        return Ok(("none",))

    def remove(self, n: MNode, keep_children=False, with_clones=False):
        victims = [n]
        if with_clones:
            victims = [x for x in self.all() if x.data_id == n.data_id]
            if keep_children and len(victims) > 1:
                # determined only if the clones are not nested and no un-nesting can collide
                for v in victims:
                    if any(self.inside(w, v) for w in victims if w is not v):
                        return Unspec("keep_children + with_clones on nested clones")
                    others = [c for c in self.kids(self.parent_of(v)) if c is not v]
                    ids = [c.data_id for c in v.children]
                    if any(o.data_id in ids for o in others):
                        return Unspec("keep_children + with_clones with a possible collision")
                parents = [self.parent_of(v) for v in victims]
                if len({id(p) for p in parents}) != len(parents):
                    return Unspec("two clones below one parent")
                # a child of one victim must not be the parent of another victim
                for v in victims:
                    K = self.kids(self.parent_of(v))
                    i = next(k for k, c in enumerate(K) if c is v)
                    K[i:i + 1] = v.children
                    v.children = []
                return Ok(("none",), removed=victims)
        if keep_children:
            p = self.parent_of(n)
            K = self.kids(p)
            others = [c for c in K if c is not n]
            ids = [c.data_id for c in n.children]
            if any(o.data_id in ids for o in others):
                return Refuse(UNIQ)
            i = next(k for k, c in enumerate(K) if c is n)
            K[i:i + 1] = n.children
            n.children = []
            return Ok(("none",), removed=[n])
        removed = []
        for v in victims:
            if not self.has(v.uid):
                continue  # already gone with the branch of another clone
            removed += self.branch(v)
            K = self.kids(self.parent_of(v))
            del K[next(i for i, c in enumerate(K) if c is v)]
        return Ok(("none",), removed=removed)

    def remove_children(self, n: MNode | None):
        removed = [b for c in self.kids(n) for b in self.branch(c)]
        if n is None:
            self.top = []
        else:
            n.children = []
        return Ok(("none",), removed=removed)

    # -- re-ordering (A.4) ------------------------------------------------------
    def sort(self, p: MNode | None, deep: bool):
        """The model cannot predict ties: it only names the parents whose child lists
        must become sorted permutations; the harness adopts the real order."""
        parents = []

        def rec(q):
            K = self.kids(q)
            if K:
                parents.append(q)
            if deep:
                for c in K:
                    rec(c)

        rec(p)
        return Ok(("none",), sorted_parents=parents)

    # -- data, ids (A.5) --------------------------------------------------------------
    def set_data(self, n: MNode, data, data_id=None, with_clones=None):
        if not data and not data_id:
            if data is None and data_id is None:
                return Refuse(INVALID, "neither data nor data_id")
            return Unspec("falsy data / data_id")
        G = [x for x in self.all() if x.data_id == n.data_id]
        if len(G) > 1 and with_clones is None:
            return Refuse(AMBIG)
        A = G if with_clones else [n]
        new_data = None if (data is None or data is n.data) else data
        if data_id is not None:
            new_id = data_id
        elif new_data is not None:
            new_id = self.rule(new_data)
        else:
            new_id = n.data_id
        if new_data is not None and not new_data:
            return Unspec("falsy new data")
        if new_id != n.data_id:
            for x in A:
                K = self.kids(self.parent_of(x))
                if any(c.data_id == new_id and not any(c is a for a in A) for c in K):
                    return Refuse(UNIQ)
            # two members of A below the same parent would collide with each other: impossible (same id before)
        for x in A:
            if new_data is not None:
                x.data = new_data
            x.data_id = new_id
        return Ok(("none",))

    # -- meta -------------------------------------------------------------------------
    def set_meta(self, n: MNode, key, value):
        if value is None:
            return self.clear_meta(n, key)
        if n.meta is None or n.meta is ANY:
            n.meta = {}
        n.meta[key] = value
        return Ok(("none",))

    def clear_meta(self, n: MNode, key=None):
        if key is None:
            n.meta = None
        elif n.meta:
            n.meta.pop(key, None)
            if not n.meta:
                n.meta = None
        return Ok(("none",))

    def update_meta(self, n: MNode, values: dict, replace=False):
        if replace or not n.meta:
            n.meta = dict(values)
        else:
            n.meta.update(values)
        return Ok(("none",))

    # -- filter (T/F predicate; C08 definition) -----------------------------------------
    def filter(self, p: MNode | None, keep_uids: set):
        removed = []

        def scan(K):
            out = []
            for c in K:
                sub = scan(c.children)
                if c.uid in keep_uids or sub:
                    c.children = sub
                    out.append(c)
                else:
                    removed.extend(self.branch(c))
            return out

        if p is None:
            self.top = scan(self.top)
        else:
            p.children = scan(p.children)
        return Ok(("none",), removed=removed)

    def filter_verdicts(self, p: MNode | None, verdicts: dict):
        """In-place filter with the full verdict vocabulary (C08 definition):
        T keep+scan, F/N scan (keep iff a descendant is kept), K skip branch, Z keep node only,
        S keep whole branch, X stop: end the scan, keep what was accepted so far."""
        removed = []
        stopped = [False]

        def scan(K):
            out = []
            for c in K:
                if stopped[0]:
                    removed.extend(self.branch(c))
                    continue
                v = verdicts.get(c.uid, "F")
                if v == "X":
                    stopped[0] = True
                    removed.extend(self.branch(c))
                elif v == "T":
                    c.children = scan(c.children)
                    out.append(c)
                elif v in ("F", "N"):
                    sub = scan(c.children)
                    if sub:
                        c.children = sub
                        out.append(c)
                    else:
                        # everything below was already collected by the recursive scan
                        c.children = []
                        removed.append(c)
                elif v == "S":
                    out.append(c)
                elif v == "K":
                    removed.extend(self.branch(c))
                elif v == "Z":
                    for k in c.children:
                        removed.extend(self.branch(k))
                    c.children = []
                    out.append(c)
            return out

        if p is None:
            self.top = scan(self.top)
        else:
            p.children = scan(p.children)
        return Ok(("none",), removed=removed)

    # -- index access (C09 table) ------------------------------------------------------------
    def resolve_key(self, key, real_node_ids: dict):
        """real_node_ids: uid -> node_id of the bound real node."""
        if isinstance(key, int) and not isinstance(key, bool):
            hits = [n for n in self.all() if real_node_ids.get(n.uid) == key]
            if hits:
                return hits
        if isinstance(key, (int, str)):
            hits = [n for n in self.all() if n.data_id == key]
            if hits:
                return hits
        try:
            k = self.rule(key)
        except TypeError:
            return []
        return [n for n in self.all() if n.data_id == k]
