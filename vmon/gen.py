"""Workload generators: ordered forests (exhaustive + random), labelings, builders.

A *forest* is a nested list: a forest is a list of nodes, a node is the list of
its children.  `[[], [[]]]` = two top nodes, the second with one child.
Nodes are addressed by their pre-order index 0..n-1.
"""

from __future__ import annotations

import functools
import random


@functools.lru_cache(maxsize=None)
def _forests(n: int):
    if n == 0:
        return ((),)
    out = []
    for k in range(1, n + 1):  # size of the first tree
        for first in _forests(k - 1):
            for rest in _forests(n - k):
                out.append((first,) + rest)
    return tuple(out)


def forests(n: int):
    """All ordered forests with exactly n nodes (Catalan(n) many), as nested tuples."""
    return _forests(n)


def to_list(f):
    return [to_list(k) for k in f]


def size(f) -> int:
    n, stack = 0, [f]
    while stack:
        lst = stack.pop()
        n += len(lst)
        stack.extend(lst)
    return n


def height(f) -> int:
    return 0 if not f else 1 + max(height(k) for k in f)


def code(f) -> str:
    out, stack = [], [iter(f)]
    while stack:
        k = next(stack[-1], None)
        if k is None:
            stack.pop()
            if stack:
                out.append(")")
        else:
            out.append("(")
            stack.append(iter(k))
    return "".join(out)


def decode(s: str):
    stack = [[]]
    for ch in s:
        if ch == "(":
            new = []
            stack[-1].append(new)
            stack.append(new)
        else:
            stack.pop()
    return stack[0]


def random_forest(rng: random.Random, n: int, *, style: str | None = None):
    """Random forest with n nodes. style: None/'mixed', 'chain', 'star', 'deep', 'wide'."""
    if style is None:
        style = rng.choice(["mixed", "mixed", "mixed", "deep", "wide", "chain", "star"])
    nodes = []  # child lists, index = creation order
    root = []
    for i in range(n):
        if style == "chain":
            p = nodes[-1] if nodes else root
        elif style == "star":
            p = nodes[0] if nodes else root
        elif style == "deep":
            cand = nodes[-3:] if nodes else []
            p = rng.choice(cand) if cand and rng.random() < 0.85 else (rng.choice(nodes) if nodes and rng.random() < 0.7 else root)
        elif style == "wide":
            cand = nodes[:3]
            p = rng.choice(cand) if cand and rng.random() < 0.7 else root
        else:
            p = rng.choice(nodes) if nodes and rng.random() < 0.8 else root
        new = []
        p.append(new)
        nodes.append(new)
    return root


def preorder_paths(f):
    """List of index paths (tuples) in pre-order."""
    out = []

    def rec(kids, path):
        for i, k in enumerate(kids):
            out.append(path + (i,))
            rec(k, path + (i,))

    rec(f, ())
    return out


def parents(f):
    """parent pre-order index per node (-1 = root)."""
    out = []

    def rec(kids, p):
        for k in kids:
            me = len(out)
            out.append(p)
            rec(k, me)

    rec(f, -1)
    return out


CREATION = ["pre"]  # "pre": nodes are created in document order; "bfs": level by level (creation order != document order)


def build(tree, f, label, *, kind=None, data_id=None, node_id=None, creation=None):
    """Populate `tree` with the shape f. label(i) -> data for pre-order index i.
    kind(i) -> kind (typed trees), data_id(i) -> explicit id or None.
    Returns the list of nodes in pre-order."""
    from nutree.tree import Tree as _Tree

    if (creation or CREATION[0]) == "bfs":
        # same tree, but the nodes come into being level by level: whatever the library keeps in creation order (registry,
        # clone lists) is then not in document order
        cnt = [0]

        def number(kids):
            out = []
            for k in kids:
                i = cnt[0]
                cnt[0] += 1
                out.append((i, number(k)))
            return out

        plan = number(f)
        made = [None] * cnt[0]
        queue = [(tree._root if isinstance(tree, _Tree) else tree, plan)]
        while queue:
            parent, items = queue.pop(0)
            for i, sub in items:
                kw = {}
                if kind is not None:
                    kw["kind"] = kind(i)
                if data_id is not None and data_id(i) is not None:
                    kw["data_id"] = data_id(i)
                if node_id is not None and node_id(i) is not None:
                    kw["node_id"] = node_id(i)
                made[i] = parent.add(label(i), **kw)
                queue.append((made[i], sub))
        return made
    nodes = []

    def rec(parent, kids):
        for k in kids:
            i = len(nodes)
            kw = {}
            if kind is not None:
                kw["kind"] = kind(i)
            if data_id is not None:
                d = data_id(i)
                if d is not None:
                    kw["data_id"] = d
            if node_id is not None:
                d = node_id(i)
                if d is not None:
                    kw["node_id"] = d
            n = parent.add(label(i), **kw)
            nodes.append(n)
            rec(n, k)

    from nutree.tree import Tree

    rec(tree._root if isinstance(tree, Tree) else tree, f)
    return nodes


FORCE_UNIQUE = [False]  # set by a caller that wants trees without any clone (e.g. to create the only clones later, by set_data)


def clone_labeling(rng: random.Random, f, alphabet, *, tries=30):
    """Assign labels from `alphabet` such that siblings differ; forces clones when
    the alphabet is small.  Returns list label per pre-order index, or None."""
    par = parents(f)
    n = len(par)
    if FORCE_UNIQUE[0]:
        return None  # the caller falls back to one label per node: a tree that never had a clone
    for _ in range(tries):
        labs = [None] * n
        ok = True
        for i in range(n):
            used = {labs[j] for j in range(i) if par[j] == par[i]}
            cand = [a for a in alphabet if a not in used]
            if not cand:
                ok = False
                break
            labs[i] = rng.choice(cand)
        if ok:
            return labs
    return None


def warm_queries(t, typed=False):
    """Calls a battery of read-only functions on the tree and every node and throws the results away.  Run before
    a mutating prelude, this makes any memo / cache inside the library hold pre-mutation answers."""
    def q(fn):
        try:
            r = fn()
            if r is not None and not isinstance(r, (str, int, bool, list, tuple, dict)):
                try:
                    for i, _ in enumerate(r):
                        if i > 200:
                            break
                except TypeError:
                    pass
        except Exception:
            pass

    q(lambda: len(t)); q(lambda: t.count); q(lambda: t.count_unique); q(lambda: bool(t)); q(lambda: t.first_child()); q(lambda: t.last_child())
    q(lambda: t.format()); q(lambda: t.to_dict_list()); q(lambda: list(t)); q(lambda: t.calc_height()); q(lambda: repr(t))
    q(lambda: list(t.to_dot()))
    if typed:
        q(lambda: list(t.iter_by_type("ka"))); q(lambda: t.first_child(kind=None)); q(lambda: t.last_child(kind=None))
    for n in list(t):
        for fn in (lambda: n.children, lambda: n.first_child(), lambda: n.last_child(), lambda: n.first_sibling(), lambda: n.last_sibling(),
                   lambda: n.prev_sibling(), lambda: n.next_sibling(), lambda: n.get_siblings(), lambda: n.get_siblings(add_self=True),
                   lambda: n.get_index(), lambda: n.depth(), lambda: n.calc_depth(), lambda: n.calc_height(), lambda: n.get_parent_list(), lambda: n.path,
                   lambda: n.get_clones(), lambda: n.is_clone(), lambda: n.has_children(), lambda: n.is_leaf(), lambda: n.is_top(),
                   lambda: n.count_descendants(), lambda: t.find_all(n.data), lambda: t.find_first(data_id=n.data_id), lambda: n.data in t,
                   lambda: n.format(), lambda: repr(n), lambda: n.name, lambda: list(n), lambda: n.get_top(), lambda: n.is_first_sibling(),
                   lambda: n.is_last_sibling(), lambda: t[n.node_id]):
            q(fn)
        if typed:
            k = getattr(n, "kind", None)
            for fn in (lambda: n.get_children(kind=k), lambda: n.get_children(kind=None), lambda: n.first_child(kind=k), lambda: n.last_child(kind=k),
                       lambda: n.first_sibling(any_kind=True), lambda: n.last_sibling(any_kind=True), lambda: n.prev_sibling(any_kind=True),
                       lambda: n.next_sibling(any_kind=True), lambda: n.get_siblings(any_kind=True), lambda: n.get_index(any_kind=True),
                       lambda: n.has_children(kind=k), lambda: n.has_children(kind=None)):
                q(fn)


def history_prelude(t, nodes, rng, typed):
    """Brings the tree into a state with a history before the queries are evaluated: refused calls
    (collision, invalid position, bad kind, ids on deep copies) and add/remove pairs that return a
    node to being childless.  The oracle re-reads the tree afterwards, so this is sound."""
    kw = {"kind": "kx"} if typed else {}
    live = [n for n in nodes]
    warm_queries(t, typed)
    if live and rng.random() < 0.5:
        # a remove(keep_children=True) that has to be refused at the *second* child it would lift (the first one is fine, the
        # second one meets a sibling of the removed node with the same data): the refusal may not leave anything half-done.
        # The temporary nodes go away again afterwards.
        try:
            cands = [n for n in live if len(n.children) >= 2]
            rng.shuffle(cands)
            for n in cands[:3]:
                holder = n.parent if n.parent is not None else t
                second = list(n.children)[1]
                if any(c.data_id == second.data_id for c in holder.children):
                    continue
                twin = holder.add(second.data, data_id=second.data_id, **({"kind": second.kind} if typed else {}))  # a clone of n's 2nd child next to n
                try:
                    n.remove(keep_children=True)  # fine for the first child, refused at the second
                except Exception:
                    pass
                if twin._tree is not None:
                    twin.remove()
                break
        except Exception:
            pass
    for _ in range(4):
        if not live:
            break
        n = rng.choice(live)
        r = rng.random()
        try:
            if rng.random() < 0.3:
                r2 = rng.random()
                holder = rng.choice([t, n, n.parent if n.parent is not None else t])
                if r2 < 0.35:
                    keys = {}
                    (holder.sort if holder is t else holder.sort_children)(key=lambda x: keys.setdefault(id(x), rng.random()), reverse=rng.random() < 0.5)
                elif r2 < 0.5:
                    holder.filter(lambda x: True)  # keeps everything
                elif r2 < 0.7:
                    c = n.add(rng.choice(live))  # a clone (shallow copy) of another node ...
                    c.remove()  # ... that goes away again
                elif r2 < 0.85:
                    tmp = n.add("tmp-branch", **kw)
                    tmp.add("tmp-leaf-1", **kw); tmp.add("tmp-leaf-2", **kw)
                    if rng.random() < 0.5:
                        tmp.remove(keep_children=True)
                        n.remove_children() if len(n.children) == 2 and all(str(c.data).startswith("tmp-leaf") for c in n.children) else [
                            c.remove() for c in list(n.children) if str(c.data).startswith("tmp-leaf")]
                    else:
                        tmp.remove()
                else:
                    old = n.data
                    if isinstance(old, str) and not n.is_clone():
                        n.rename(old + "~")
                        n.rename(old)
                continue
            if r < 0.2:
                n.add(n.data, data_id=n.data_id, **kw) if False else n._parent.add(n.data, data_id=n.data_id, **kw)  # collision
            elif r < 0.35:
                n.add("tmp-new", before=n, **kw)  # invalid position: `before` is not a child of n
            elif r < 0.45 and typed:
                n.add("tmp-new", kind=123)  # invalid kind
            elif r < 0.55:
                n.add(n, deep=True, data_id="some-id", **kw)  # ids are not allowed for deep copies
            elif r < 0.7:
                c = n.add("tmp-child", **kw)  # childless -> one child -> childless again
                c.remove()
            elif r < 0.78:
                n.remove(keep_children=True)  # may be refused half-way through its children (collision)
            elif r < 0.88:
                # move within the own parent (also as an only child) / to another node
                tgt = rng.choice([n.parent if n.parent is not None else t, rng.choice(live)])
                if tgt is not n and not (hasattr(tgt, "is_descendant_of") and tgt.is_descendant_of(n)):
                    n.move_to(tgt, before=rng.choice([None, True]))
            else:
                c = n.add("tmp-child-2", **kw)
                n.remove_children()
        except Exception:
            pass
    out = []

    def rec(h):
        for c in h.children:
            out.append(c)
            rec(c)

    rec(t)
    return out


def refused_prelude(t, nodes, rng, typed):
    """Like history_prelude, but shape-neutral: only calls that must be refused and add/remove pairs.
    Used where the oracle is computed from the *built* shape."""
    kw = {"kind": "kx"} if typed else {}
    warm_queries(t, typed)
    for _ in range(3):
        if not nodes:
            break
        n = rng.choice(nodes)
        r = rng.random()
        try:
            if rng.random() < 0.35:
                # moves that leave the shape as it is: an only child to its own parent, a first child to the front, a last one to the end
                par = n.parent if n.parent is not None else t
                sibs = list(par.children)
                if len(sibs) == 1:
                    n.move_to(par, before=rng.choice([None, True]))
                elif sibs[0] is n:
                    n.move_to(par, before=True)
                elif sibs[-1] is n:
                    n.move_to(par)
                continue
            if r < 0.3:
                n.add("tmp-new", before=n, **kw)  # `before` is not a child of n
            elif r < 0.45:
                n.add("tmp-new", before="garbage", **kw)
            elif r < 0.6 and typed:
                n.add("tmp-new", kind=123)
            elif r < 0.75:
                n.add(n, deep=True, data_id="some-id", **kw)
            elif r < 0.88:
                n.add("tmp-child", **kw).remove()
            else:
                # a branch with grandchildren that goes away again (remove / remove_children): nothing of it may stay behind
                tmp = n.add("tmp-branch", **kw)
                tmp.add("tmp-b1", **kw).add("tmp-b11", **kw).add("tmp-b111", **kw)
                tmp.add("tmp-b2", **kw)
                if rng.random() < 0.5:
                    tmp.remove()
                else:
                    tmp.remove_children()
                    tmp.remove()
        except Exception:
            pass


_EXT = {}


def ext_classes():
    """User extensions that must not matter: node classes (passed as `factory=`) whose instances are always falsy (and have
    a `__len__`) and whose `name` differs from `str(data)`; tree subclasses that override the class-level defaults.
    Returns a dict with XNode, XTypedNode, XTree, XTypedTree."""
    if _EXT:
        return _EXT
    from nutree import Node, Tree
    from nutree.typed_tree import TypedNode, TypedTree

    class XNode(Node):
        def __len__(self):
            return len(self.children)

        def __bool__(self):
            return False  # nothing in the library may depend on the truth value of a node

        @property
        def name(self):
            return "\u00ab" + str(self.data) + "\u00bb"

    class XTypedNode(TypedNode):
        def __len__(self):
            return len(self.children)

        def __bool__(self):
            return False

        @property
        def name(self):
            return "\u00ab" + str(self.data) + "\u00bb"

    class XTree(Tree):
        DEFAULT_CONNECTOR_STYLE = "ascii32"

        def __init__(self, name=None, **kw):
            kw.setdefault("factory", XNode)
            super().__init__(name, **kw)

    class XTypedTree(TypedTree):
        DEFAULT_CONNECTOR_STYLE = "ascii32"
        DEFAULT_CHILD_TYPE = "kid"

        def __init__(self, name=None, **kw):
            kw.setdefault("factory", XTypedNode)
            super().__init__(name, **kw)

    _EXT.update(XNode=XNode, XTypedNode=XTypedNode, XTree=XTree, XTypedTree=XTypedTree)
    return _EXT


def expected_name(node):
    """What `node.name` has to be, computed from the node's *current* data (never read from the node itself, which might
    serve a stale value): the extension classes define it as the data in guillemets, the stock classes as format(data)."""
    if type(node).__name__ in ("XNode", "XTypedNode"):
        return "\u00ab" + str(node.data) + "\u00bb"
    return f"{node.data}"
