"""vmon - runtime monitors for mar10/nutree (see /verif/DESIGN.md).

Importing this package pins the interpreter to the working tree in /repo (or
$VMON_REPO) so that every check observes the *current* sources.
"""

import os
import sys

REPO = os.environ.get("VMON_REPO", "/repo")
VERIF = os.path.dirname(os.path.dirname(os.path.abspath(__file__)))

if sys.path[0] != REPO:
    sys.path.insert(0, REPO)


def bootstrap(track_locks=False):
    """Import nutree from REPO and assert that it really comes from there.
    track_locks: install the waits-for-graph deadlock monitor (vmon/locktrack.py) around the import."""
    if track_locks and "nutree" not in sys.modules:
        from . import locktrack

        def _imp():
            import importlib

            import nutree  # noqa: F401

            for m in ("nutree.tree", "nutree.node", "nutree.typed_tree", "nutree.common", "nutree.dot", "nutree.fs"):
                importlib.import_module(m)
            return [m for n, m in list(sys.modules.items()) if n == "nutree" or n.startswith("nutree.")]

        locktrack.install(_imp)
    import nutree

    f = os.path.realpath(nutree.__file__)
    if not f.startswith(os.path.realpath(REPO) + os.sep):
        raise RuntimeError(f"nutree imported from {f}, expected below {REPO}")
    return nutree
