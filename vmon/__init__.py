"""vmon - runtime monitors for mar10/nutree (see /verif/DESIGN.md).

Importing this package pins the interpreter to the working tree in /repo (or
$VMON_REPO) so that every check observes the *current* sources.
"""

import os
import sys

REPO = os.environ.get("VMON_REPO", "/repo")
VERIF = os.path.dirname(os.path.dirname(os.path.abspath(__file__)))

if sys.path[0] != REPO:
    sys.path.insert(0, REPO)


def bootstrap():
    """Import nutree from REPO and assert that it really comes from there."""
    import nutree

    f = os.path.realpath(nutree.__file__)
    if not f.startswith(os.path.realpath(REPO) + os.sep):
        raise RuntimeError(f"nutree imported from {f}, expected below {REPO}")
    return nutree
