"""Argument-class coverage of the library's functions (tools/argcov.py).

With $VMON_ARGCOV set, every worker records - via sys.monitoring PY_START - for each function of nutree that was
entered which *class of value* each parameter received (None / True / False / negative, zero, positive int / empty,
non-empty str / callable / Node / Tree / list / dict / ...).  The union over all workloads shows the documented
parameters and value classes that no workload ever passed, i.e. where a change could hide from every monitor.
"""

from __future__ import annotations

import json
import os
import sys


def classify(v):
    if v is None:
        return "None"
    if v is True:
        return "True"
    if v is False:
        return "False"
    t = type(v)
    if t is int:
        return "int<0" if v < 0 else "int0" if v == 0 else "int>0"
    if t is str:
        return "str-empty" if not v else "str"
    if t is float:
        return "float"
    if t in (list, tuple, dict, set, frozenset):
        return f"{t.__name__}-empty" if not v else t.__name__
    names = [c.__name__ for c in t.__mro__]
    if "Tree" in names:
        return "TypedTree" if "TypedTree" in names else ("Tree-subclass" if t.__name__ not in ("Tree",) else "Tree")
    if "Node" in names:
        return "TypedNode" if "TypedNode" in names else ("Node-subclass" if t.__name__ not in ("Node", "_SystemRootNode") else "Node")
    if isinstance(v, type):
        return "class"
    if callable(v):
        return "callable"
    if "Enum" in names:
        return f"{t.__name__}.{v.name}"
    if "IOBase" in names or hasattr(v, "write") or hasattr(v, "read"):
        return "stream"
    if "PurePath" in names:
        return "Path"
    return f"<{t.__name__}>" if t.__module__.startswith("nutree") else "object"


class ArgCov:
    def __init__(self, prefix):
        self.prefix = prefix
        self.seen: dict[str, dict[str, set]] = {}
        self.on = False

    def start(self):
        mon = sys.monitoring
        self.tool = mon.PROFILER_ID
        try:
            mon.use_tool_id(self.tool, "vmon-argcov")
        except ValueError:
            return
        prefix = self.prefix
        seen = self.seen

        def on_start(code, offset):
            fn = code.co_filename
            if not fn.startswith(prefix):
                return mon.DISABLE
            fr = sys._getframe(1)
            key = f"{fn[len(prefix):]}:{code.co_qualname}"
            d = seen.get(key)
            if d is None:
                d = seen[key] = {}
            loc = fr.f_locals
            for name in code.co_varnames[: code.co_argcount + code.co_kwonlyargcount]:
                if name in ("self", "cls"):
                    continue
                try:
                    c = classify(loc.get(name))
                except Exception:
                    c = "?"
                s = d.get(name)
                if s is None:
                    s = d[name] = set()
                s.add(c)

        mon.register_callback(self.tool, mon.events.PY_START, on_start)
        mon.set_events(self.tool, mon.events.PY_START)
        self.on = True

    def stop(self, path):
        if self.on:
            sys.monitoring.set_events(self.tool, 0)
            sys.monitoring.free_tool_id(self.tool)
            self.on = False
        out = {k: {p: sorted(v) for p, v in d.items()} for k, d in self.seen.items()}
        with open(f"{path}.{os.getpid()}", "w") as fp:
            json.dump(out, fp)
