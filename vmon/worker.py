"""python -m vmon.worker <module> <spec.json> <out.json> - runs one shard."""

from __future__ import annotations

import faulthandler
import importlib
import json
import os
import sys
import time

from . import bootstrap
from .core import CaseTimeout, CovProbe, Result, short_tb


def _safe_stdio():
    for st in (sys.stdout, sys.stderr):
        try:
            st.reconfigure(errors="backslashreplace")  # witnesses may contain lone surrogates
        except Exception:
            pass


def main(argv):
    modname, specfile, outfile = argv
    _safe_stdio()
    faulthandler.enable()
    bootstrap(track_locks=(modname == "c18"))
    mod = importlib.import_module(f"vmon.props.{modname}")
    with open(specfile) as fp:
        spec = json.load(fp)
    res = Result()
    res.deadline = time.monotonic() + float(spec.get("budget_s", 1e9))
    res.expired = lambda: time.monotonic() > res.deadline
    probe = CovProbe()
    argcov = None
    if os.environ.get("VMON_ARGCOV"):
        from . import REPO
        from .argcov import ArgCov

        argcov = ArgCov(os.path.join(os.path.realpath(REPO), "nutree") + os.sep)
        argcov.start()
    if spec.get("cov", True):
        probe.start()
    t0 = time.monotonic()
    try:
        if spec.get("replay") is not None:
            mod.run_case(spec["replay"], res)
        else:
            mod.run_shard(spec, res)
    except CaseTimeout:
        res.inconc(f"shard {spec.get('name')}: per-case watchdog fired outside a case")
    except Exception:
        res.inconc(f"shard {spec.get('name')}: harness error: {short_tb()}")
    finally:
        probe.stop()
        if argcov is not None:
            argcov.stop(os.environ["VMON_ARGCOV"])
    res.wall = time.monotonic() - t0
    res.lines = probe.lines()
    with open(outfile, "w") as fp:
        json.dump(res.to_json(), fp)


if __name__ == "__main__":
    main(sys.argv[1:])
