"""C12 - the native file format follows its documented layout, both ways.

Monitor: independent codec.  Writer side: every saved document is decoded by a decoder written
from the user guide (header, 1-based parent positions, pre-order, clone references, key/value
maps) and compared entry by entry with what the tree and the mapper dictate.  Reader side: an
independent encoder emits layout-conformant documents (incl. forms the writer never produces),
load() must build the described tree; the literal examples of the user guide must load to the
trees printed next to them; documents without the nutree header must be rejected.
"""

from __future__ import annotations

import io
import json

from .. import gen, sergen
from ..core import CaseTimeout, case_deadline, rng_for, short_tb, note_exc

PROP = "C12"
LEVEL = "exploration"
RULE = ("writer cases = (forest shape, flavour, labeling seed, key_map, value_map): the saved JSON is decoded independently; "
        "reader cases = (seed of a model tree, layout variant: maps on/off with arbitrary short keys, clone references vs "
        "spelled-out repeats, plain-string vs dict entries, typed/plain, generator string); plus the user guide's literal "
        "examples and malformed headers; non-trivial = >= 4 entries with a repeated occurrence; distinct by case")
ASSUMPTIONS = ["the trailing comma in the second example of ug_serialize.rst is a typo and removed",
               "a spelled-out repeat of the same data is a legal way to write a clone",
               "which exception type rejects a malformed document is not checked"]
MECH = ["nutree.node:Node.to_list_iter", "nutree.node:Node._make_list_entry", "nutree.typed_tree:TypedNode._make_list_entry",
        "nutree.node:Node._compress_entry", "nutree.tree:Tree._uncompress_entry", "nutree.tree:Tree.load", "nutree.tree:Tree.save",
        "nutree.tree:Tree._from_list", "nutree.typed_tree:TypedTree._from_list", "nutree.typed_tree:TypedTree.deserialize_mapper"]
MIN_NONTRIVIAL = {"quick": 800, "thorough": 10000}
MIN_COUNTERS = {"quick": {"doc_examples_loaded": 4, "malformed_rejected": 8, "writer_refs_checked": 200, "reader_docs": 500},
                "thorough": {"doc_examples_loaded": 4, "malformed_rejected": 8, "writer_refs_checked": 2000, "reader_docs": 5000}}


# ----------------------------------------------------------------------------------
# writer side
# ----------------------------------------------------------------------------------
def expected_entry(node, typed, tagged=False):
    """What the documentation says the *uncompressed* entry of a node is (given our mappers).
    tagged: the flavour's save mapper adds a `tag` to every dict entry."""
    e = _expected_entry(node, typed)
    if tagged and isinstance(e, dict):
        e["tag"] = "o" if isinstance(node.data, sergen.Obj) else "s"
        e["nest"] = dict(sergen.NEST)
        e["opt"] = 0 if isinstance(node.data, sergen.Obj) else None
    return e


def _expected_entry(node, typed):
    from nutree.common import DictWrapper

    d = node.data
    custom_id = node.data_id != hash(d)
    if isinstance(d, str):
        if not typed and not custom_id:
            return d
        e = {"str": d}
        if custom_id:
            e["data_id"] = node.data_id
    elif isinstance(d, sergen.Obj):
        e = {}
        if custom_id:
            e["data_id"] = node.data_id
        e["type"] = d.typ
        e["role"] = d.typ
        e["name"] = d.name
        if d.age is not None:
            e["age"] = d.age
    elif isinstance(d, sergen.PlainObj):
        e = {"type": d.typ, "name": d.name}
    elif isinstance(d, DictWrapper):
        e = dict(d._dict)
    elif type(d).__name__ == "FileSystemEntry":
        e = {"n": d.name, "d": True} if d.is_dir else {"n": d.name, "s": d.size, "m": d.mdate}
    else:
        raise TypeError(d)
    if typed:
        e["kind"] = node.kind
    return e


def decode_and_check(doc, t, typed, eff_key_map, eff_value_map_keys, user_meta, res, bad, tagged=False):
    import nutree

    if not isinstance(doc, dict) or not {"meta", "nodes"} <= set(doc):
        bad.append(f"top level keys {sorted(doc) if isinstance(doc, dict) else type(doc)}")
        return
    meta = doc["meta"]
    gen_ = meta.get("$generator")
    if not (isinstance(gen_, str) and gen_.startswith("nutree/") and len(gen_) > len("nutree/")):
        bad.append(f"$generator is {gen_!r}, expected 'nutree/<version>'")
    fv = meta.get("$format_version")
    if not (isinstance(fv, str) and fv):
        bad.append(f"$format_version is {fv!r}")
    for k, v in user_meta.items():
        if meta.get(k) != v:
            bad.append(f"user meta {k!r} not stored")
    km = meta.get("$key_map")
    if eff_key_map:
        if km != eff_key_map:
            bad.append(f"$key_map is {km!r}, map in use {eff_key_map!r}")
    elif "$key_map" in meta:
        bad.append(f"$key_map present although no key map is in use: {km!r}")
    vm = meta.get("$value_map", {})
    km = km or {}
    inv = {v: k for k, v in km.items()}
    if sorted(vm) != sorted(eff_value_map_keys):
        bad.append(f"$value_map keys {sorted(vm)}, expected {sorted(eff_value_map_keys)}")
    unknown = {k for k in set(meta) - set(user_meta) if not k.startswith("$")}
    if unknown:
        bad.append(f"unexpected header keys {unknown}")
    # pre-order list of source nodes with positions
    order = []

    def rec(h):
        for c in h.children:
            order.append(c)
            rec(c)

    rec(t)
    pos_of = {id(nd): i + 1 for i, nd in enumerate(order)}
    entries = doc["nodes"]
    if len(entries) != len(order):
        bad.append(f"{len(entries)} entries for {len(order)} nodes")
        return
    if typed and order and "kind" in vm:
        if sorted(vm["kind"]) != sorted({nd.kind for nd in order}):
            bad.append(f"$value_map.kind {vm['kind']} does not list exactly the kinds in use")
    first = {}
    for p, (entry, node) in enumerate(zip(entries, order), 1):
        if not (isinstance(entry, list) and len(entry) == 2):
            bad.append(f"entry {p} is {entry!r}")
            continue
        pidx, data = entry
        exp_parent = 0 if node.parent is None else pos_of[id(node.parent)]
        if pidx != exp_parent or not (0 <= pidx < p):
            bad.append(f"entry {p}: parent position {pidx}, expected {exp_parent}")
        did = node.data_id
        kind = sergen._node_kind(node)
        res.count("writer_entries")
        if did in first:
            q, qkind = first[did]
            if kind == qkind:
                res.count("writer_refs_checked")
                if data != q or isinstance(data, bool):
                    bad.append(f"entry {p}: repeated occurrence of entry {q} (same kind) must be stored as {q}, got {data!r}")
                continue
            res.count("writer_spelled_out_repeats")
            if isinstance(data, int):
                bad.append(f"entry {p}: reference {data!r} although the kind differs from the first occurrence")
                continue
        else:
            first[did] = (p, kind)
            if isinstance(data, int) and not isinstance(data, bool):
                bad.append(f"entry {p}: first occurrence stored as reference {data!r}")
                continue
        exp = expected_entry(node, typed, tagged)
        if isinstance(exp, str):
            if data != exp:
                bad.append(f"entry {p}: {data!r}, expected the plain string {exp!r}")
            continue
        if not isinstance(data, dict):
            bad.append(f"entry {p}: {data!r}, expected a dict")
            continue
        # shortened exactly as declared
        long = {}
        for k, v in data.items():
            lk = inv.get(k, k)
            if k in km and k not in inv:
                bad.append(f"entry {p}: key {k!r} is declared in $key_map but stored unshortened")
            if lk in vm:
                if isinstance(v, int) and not isinstance(v, bool) and 0 <= v < len(vm[lk]):
                    v = vm[lk][v]
                else:
                    bad.append(f"entry {p}: value of {lk!r} is {v!r}, not an index into $value_map")
            long[lk] = v
        if long != exp:
            bad.append(f"entry {p}: decodes to {long!r}, expected {exp!r}")
        if len(bad) > 6:
            return


def run_writer(case, res):
    f = gen.decode(case["f"])
    rng = rng_for(case["seed"], "c12w", case["f"], case["flavour"])
    bad = []
    try:
        with case_deadline(60):
            t, save_kw, load_cls, load_kw = sergen.build_source(case["flavour"], f, rng)
            typed = case["flavour"].startswith("typed")
            import copy

            km = sergen.key_map_for(case["flavour"], case["km"])
            vm = copy.deepcopy(sergen.VALUE_MAPS[case["vm"]])
            user_meta = {"foo": "bar"}
            fp = io.StringIO()
            _opts_before = copy.deepcopy((km, vm))
            if case.get("reuse_meta"):
                # an earlier save with the *same* meta dict and all maps on must not influence this one
                t.save(io.StringIO(), meta=user_meta, key_map=sergen.key_map_for(case["flavour"], "custom"),
                       value_map=copy.deepcopy(sergen.VALUE_MAPS["custom"]), **save_kw)
                if user_meta != {"foo": "bar"}:
                    bad.append(f"save() wrote into the caller's meta dict: {user_meta}")
                    user_meta = {"foo": "bar"}
            if case.get("path"):
                import os
                import shutil
                import tempfile

                tmp = tempfile.mkdtemp(prefix="vmon-c12-")
                try:
                    pth = os.path.join(tmp, "doc.json")
                    # "optional zipping": with a compression method the file is a zip archive holding the one document (read
                    # back with the zipfile module, not with the library); without, it is the JSON text itself
                    import zipfile

                    comp = [False, False, True, zipfile.ZIP_STORED, zipfile.ZIP_DEFLATED, zipfile.ZIP_BZIP2][rng.randrange(6)]
                    t.save(pth, meta=user_meta, key_map=km, value_map=vm, compression=comp, **save_kw)
                    res.count(f"writer_path_compression:{comp!r}")
                    if comp is False:
                        with open(pth, "rb") as f2:
                            raw = f2.read()
                        try:
                            text = raw.decode("utf8")
                        except UnicodeDecodeError as e:
                            res.violation(case, f"the file written by save(path) is not UTF-8 text: {e}")
                            return
                    elif not zipfile.is_zipfile(pth):
                        bad.append(f"save(path, compression={comp!r}) did not write a zip archive")
                        with open(pth, encoding="utf8") as f2:
                            text = f2.read()
                    else:
                        with zipfile.ZipFile(pth) as zf:
                            members = zf.namelist()
                            if len(members) != 1:
                                bad.append(f"zip archive written by save() holds {len(members)} members: {members}")
                            if comp is not True and zf.infolist()[0].compress_type != comp:
                                bad.append(f"save(compression={comp}) wrote a member with compress_type {zf.infolist()[0].compress_type}")
                            try:
                                text = zf.read(members[0]).decode("utf8")
                            except UnicodeDecodeError as e:
                                res.violation(case, f"the document inside the zip archive written by save() is not UTF-8 text: {e}")
                                return
                finally:
                    shutil.rmtree(tmp, ignore_errors=True)
                fp.write(text)
            else:
                t.save(fp, meta=user_meta, key_map=km, value_map=vm, **save_kw)
            doc = json.loads(fp.getvalue())
            if (km, vm) != _opts_before:
                bad.append(f"save() wrote into the caller's key_map / value_map object: {km!r} / {vm!r}")
            eff_km = type(t).DEFAULT_KEY_MAP if km is True else ({} if km is False else km)
            if vm is True:
                vkeys = set(type(t).DEFAULT_VALUE_MAP)
            elif vm is False:
                vkeys = set()
            else:
                vkeys = set(vm)
            if typed and vm is not False:
                vkeys.add("kind")
            n = t.count
            res.case(case, nontrivial=n >= 4 and t.count_unique < n)
            res.count("writer_docs")
            res.observe("documents_decoded", fp.getvalue())
            decode_and_check(doc, t, typed, dict(eff_km), vkeys, user_meta, res, bad, tagged=case["flavour"] in ("typed_mixed", "mixed_ids"))
            if fp.getvalue() != json.dumps(doc, separators=(",", ":")) and fp.getvalue() != json.dumps(doc, separators=(",", ":"), ensure_ascii=True):
                pass  # formatting details are not part of the layout
    except CaseTimeout:
        res.inconc("case watchdog fired")
        return
    except Exception:
        note_exc(res, bad, "save() raised: ")
    if bad:
        res.violation(case, "; ".join(bad[:3])[:3000], n_bad=len(bad))


# ----------------------------------------------------------------------------------
# reader side: independent encoder
# ----------------------------------------------------------------------------------
def model_tree(rng, typed, dk="child"):
    """nested [label, kind, explicit id|None, kids]; siblings have distinct ids; explicit ids identify labels."""
    n = rng.randint(0, 12)
    f = gen.random_forest(rng, n)
    par = gen.parents(f)
    labs, ids, kinds = [], [], []
    for i in range(n):
        used = {(ids[j] if ids[j] is not None else labs[j]) for j in range(i) if par[j] == par[i]}
        for _ in range(60):
            lab = rng.choice(["a", "b", "c", "ä", "d e", ""])
            did = rng.choice([None, None, None, lab + "#1", 100 + ord((lab or "_")[0])])
            if (did if did is not None else lab) not in used:
                break
        else:
            lab, did = f"n{i}", None
        labs.append(lab)
        ids.append(did)
        kinds.append(rng.choice(["ka", "kb", "kc", dk, dk]) if typed else None)

    cnt = [0]

    def rec(kids):
        out = []
        for k in kids:
            i = cnt[0]
            cnt[0] += 1
            out.append([labs[i], kinds[i], ids[i], rec(k)])
        return out

    return rec(f)


#: inner keys that look like long keys, short keys and mapped values of the documents of this run
NESTED_INFO = {"S": "inner-S", "str": "inner", "kind": 0, "K": 1, "D": 2, "data_id": "x", "s": 3, "i": 4, "k": 0}


def encode(model, rng, typed, variant, dk="child"):
    """Independent encoder of the documented layout."""
    key_map = {}
    if variant["key_map"]:
        key_map = {"str": "S", "data_id": "D", "kind": "K"}
        if variant["key_map"] == "partial":
            key_map = {"str": "S"}
    value_map = {}
    allkinds = []

    def coll(lst):
        for lab, kind, did, kids in lst:
            if kind is not None and kind not in allkinds:
                allkinds.append(kind)
            coll(kids)

    coll(model)
    if variant["value_map"] and typed and allkinds:
        rng.shuffle(allkinds)
        value_map = {"kind": allkinds + ["unused-kind"]}
    nodes = []
    first = {}

    def emit(lst, parent_pos):
        for lab, kind, did, kids in lst:
            pos = len(nodes) + 1
            ident = did if did is not None else ("L", lab)
            if ident in first and first[ident][1] == kind and variant["refs"] and rng.random() < 0.9:
                nodes.append([parent_pos, first[ident][0]])
            else:
                if did is None and (variant["plain_str"] or rng.random() < 0.5) and (not typed or (kind == dk and variant.get("typed_plain_str"))):
                    entry = lab  # typed reader: a plain-string entry (as a plain Tree writes it) gets the default kind
                else:
                    entry = {"str": lab}
                    if did is not None:
                        entry["data_id"] = did
                    if typed and not (variant["omit_default_kind"] and kind == dk):
                        entry["kind"] = kind
                    if value_map and "kind" in entry:
                        entry["kind"] = value_map["kind"].index(entry["kind"])
                    entry = {key_map.get(k, k): v for k, v in entry.items()}
                    if variant.get("nested"):
                        entry["info"] = dict(NESTED_INFO)  # a structured user value: nothing inside it is mapped
                    if not key_map and variant.get("user_short_keys"):
                        # no key map declared: keys that merely look like the default short keys are ordinary user keys
                        # (the same for the short keys that *other* documents of this run declare: S, D, K)
                        entry.update({"s": "user-s", "i": "user-i", "k": "user-k", "S": "user-S", "D": "user-D", "K": "user-K"})
                nodes.append([parent_pos, entry])
                first.setdefault(ident, (pos, kind))
            emit(kids, pos)

    emit(model, 0)
    meta = {"$generator": variant["generator"], "$format_version": "1.0"}
    if key_map:
        meta["$key_map"] = key_map
    if value_map:
        meta["$value_map"] = value_map
    if variant["user_meta"]:
        meta["author"] = "someone"
    return {"meta": meta, "nodes": nodes}


def model_shape(model):
    groups = {}

    def rec(lst):
        out = []
        for lab, kind, did, kids in lst:
            ident = did if did is not None else hash(lab)
            g = groups.setdefault(ident, len(groups))
            out.append((lab, "H" if did is None else (type(did).__name__, did), kind, g, rec(kids)))
        return out

    return rec(model)


_SHARED_FMETA = {}


def run_reader(case, res):
    from nutree import Tree
    from nutree.typed_tree import TypedTree

    rng = rng_for(case["seed"], "c12r")
    typed = case["typed"]
    bad = []
    try:
        with case_deadline(60):
            variant = case["variant"]
            cls = TypedTree if typed else Tree
            dk = "child"
            if typed and variant.get("subclass"):
                class KidTree(TypedTree):
                    """A user subclass with a default kind of its own: entries without `kind` get *this* class's default."""
                    DEFAULT_CHILD_TYPE = "kid"

                cls, dk = KidTree, "kid"
            model = model_tree(rng, typed, dk)
            doc = encode(model, rng, typed, variant, dk)
            # every second document is written the way most encoders do it: UTF-8 text, non-ASCII characters as they are
            text = json.dumps(doc, ensure_ascii=case["seed"] % 2 == 0)
            has_ids = '"data_id"' in text or '"D"' in text
            kw = {}
            seen_user = []
            seen_info = []
            if has_ids or not typed or variant.get("user_short_keys") or variant.get("nested"):
                mapper_calls = []

                def _m(parent, data):
                    mapper_calls.append(type(data).__name__)
                    if variant.get("user_short_keys") and not variant["key_map"] and "s" in data:
                        seen_user.append((data.get("s"), data.get("i"), data.get("k")))
                    if "info" in data or variant.get("nested"):
                        seen_info.append(data.get("info"))
                    if variant.get("consuming"):
                        # a mapper may take the entry apart while it builds the object
                        data.pop("kind", None)
                        data.pop("data_id", None)
                        return data.pop("str")
                    return data["str"]

                kw["mapper"] = _m
            # every second document is loaded with one long-lived file_meta dict (it still holds the previous document's header)
            fmeta = _SHARED_FMETA if case["seed"] % 2 else {}
            res.count("reader_docs")
            res.observe("documents_loaded", text)
            entries = len(doc["nodes"])
            res.case(case, nontrivial=entries >= 4 and any(isinstance(e[1], int) for e in doc["nodes"]) or entries >= 6)
            try:
                if variant.get("via_path"):
                    import os
                    import shutil
                    import tempfile

                    tmpd = tempfile.mkdtemp(prefix="vmon-c12-")
                    try:
                        pth = os.path.join(tmpd, "doc.nutree")
                        if case["seed"] % 3 == 0:
                            # "optional zipping": a zip container around the one document, produced by an ordinary zip tool
                            import zipfile

                            with zipfile.ZipFile(pth, "w", compression=zipfile.ZIP_DEFLATED) as zf:
                                zf.writestr("export-2024.json", text.encode("utf8"))
                            res.count("reader_docs_zipped_by_other_means")
                        else:
                            with open(pth, "w", encoding="utf8") as fpw:
                                fpw.write(text)
                        t = cls.load(pth, file_meta=fmeta, **kw)
                    finally:
                        shutil.rmtree(tmpd, ignore_errors=True)
                    res.count("reader_docs_via_path")
                else:
                    t = cls.load(io.StringIO(text), file_meta=fmeta, **kw)
            except Exception:
                bad.append("load of a layout-conformant document raised: " + short_tb(5))
                t = None
            if t is not None:
                if type(t) is not cls:
                    bad.append(f"loaded {type(t).__name__}")
                got = sergen.shape(t)
                exp = model_shape(model)
                if got != exp:
                    bad.append(f"loaded tree {got} differs from the described tree {exp}")
                if any(x != NESTED_INFO for x in seen_info):
                    bad.append(f"a structured value of an entry reached the mapper altered: {[x for x in seen_info if x != NESTED_INFO][:1]}, "
                               f"the document says {NESTED_INFO}")
                if any(u != ("user-s", "user-i", "user-k") for u in seen_user):
                    bad.append(f"user keys s/i/k of a document without $key_map reached the mapper as {seen_user[:2]}")
                n_dict_entries = sum(1 for e in doc["nodes"] if isinstance(e[1], dict))
                if "mapper" in kw and (len(mapper_calls) != n_dict_entries or set(mapper_calls) - {"dict"}):
                    bad.append(f"the load mapper was called {len(mapper_calls)}x ({sorted(set(mapper_calls))}), the document has {n_dict_entries} dict "
                               f"entries (plain-string entries and references are not passed to the mapper)")
                if variant["user_meta"] and fmeta.get("author") != "someone":
                    bad.append("file_meta lacks the user metadata")
                if fmeta.get("$generator") != variant["generator"]:
                    bad.append("file_meta lacks $generator")
    except CaseTimeout:
        res.inconc("case watchdog fired")
        return
    except Exception:
        note_exc(res, bad, "exception escaped from the library: ")
    if bad:
        res.violation(case, "; ".join(bad[:2])[:3000], n_bad=len(bad), document=doc if "doc" in dir() else None)


# ----------------------------------------------------------------------------------
# literal examples of the user guide and malformed headers
# ----------------------------------------------------------------------------------
class Person:
    def __init__(self, name, age, guid=None):
        self.name, self.age, self.guid = name, age, guid

    def __repr__(self):
        return f"Person<{self.name}, {self.age}>"


class Department:
    def __init__(self, name):
        self.name = name

    def __repr__(self):
        return f"Department<{self.name}>"


def doc_mapper(parent, data):
    if data["type"] == "person":
        return Person(data["name"], data["age"], data["guid"])
    return Department(data["name"])


EX1 = {"meta": {"$generator": "nutree/0.5.1", "$format_version": "1.0", "foo": "bar"},
       "nodes": [[0, "A"], [1, "a1"], [2, "a11"], [2, "a12"], [1, "a2"], [0, "B"], [6, 3], [6, "b1"], [8, "b11"]]}
EX1_TREE = [("A", [("a1", [("a11", []), ("a12", [])]), ("a2", [])]), ("B", [("a11", []), ("b1", [("b11", [])])])]
_PEOPLE = [[0, {"type": "dept", "name": "Development"}],
           [1, {"type": "person", "name": "Alice", "age": 23, "guid": "{123-456}"}],
           [1, {"type": "person", "name": "Bob", "age": 32, "guid": "{234-456}"}],
           [1, {"type": "person", "name": "Charleen", "age": 43, "guid": "{345-456}"}],
           [0, {"type": "dept", "name": "Marketing"}], [5, 4],
           [5, {"type": "person", "name": "Dave", "age": 54, "guid": "{456-456}"}]]
EX2 = {"meta": {"$generator": "nutree/0.5.1", "$format_version": "1.0"}, "nodes": _PEOPLE}
_KM = {"type": "t", "name": "n", "age": "a", "guid": "g"}
EX3 = {"meta": {"$generator": "nutree/0.7.0", "$format_version": "1.0", "$key_map": _KM},
       "nodes": [[p, ({_KM[k]: v for k, v in d.items()} if isinstance(d, dict) else d)] for p, d in _PEOPLE]}
EX4 = {"meta": {"$generator": "nutree/0.7.0", "$format_version": "1.0", "$key_map": _KM, "$value_map": {"type": ["dept", "person"]}},
       "nodes": [[p, ({_KM[k]: (["dept", "person"].index(v) if k == "type" else v) for k, v in d.items()} if isinstance(d, dict) else d)]
                 for p, d in _PEOPLE]}
PEOPLE_TREE = [("Department<Development>", [("Person<Alice, 23>", []), ("Person<Bob, 32>", []), ("Person<Charleen, 43>", [])]),
               ("Department<Marketing>", [("Person<Charleen, 43>", []), ("Person<Dave, 54>", [])])]


def run_examples(case, res):
    from nutree import Tree
    from nutree.typed_tree import TypedTree

    bad = []

    def nest(h):
        return [(str(c.data), nest(c)) for c in h.children]

    res.case(case, nontrivial=True)
    for name, doc, exp, kw in (("plain strings", EX1, EX1_TREE, {}), ("objects", EX2, PEOPLE_TREE, {"mapper": doc_mapper}),
                               ("key_map", EX3, PEOPLE_TREE, {"mapper": doc_mapper}), ("value_map", EX4, PEOPLE_TREE, {"mapper": doc_mapper})):
        try:
            meta = {}
            t = Tree.load(io.StringIO(json.dumps(doc)), file_meta=meta, **kw)
            if nest(t) != exp:
                bad.append(f"user guide example '{name}' loads to {nest(t)}")
            else:
                res.count("doc_examples_loaded")
            clone = t.find_first(match=lambda nd: str(nd.data) in ("a11", "Person<Charleen, 43>"))
            if clone is None or not clone.is_clone() or len(clone.get_clones(add_self=True)) != 2:
                bad.append(f"user guide example '{name}': the referenced occurrence is not a clone")
            elif clone.get_clones()[0].data is not clone.data:
                bad.append(f"user guide example '{name}': clones do not share the data object")
            if name == "plain strings" and meta.get("foo") != "bar":
                bad.append("user guide example: meta['foo'] not returned")
        except Exception:
            bad.append(f"user guide example '{name}' raised: " + short_tb(4))
    good = {"meta": {"$generator": "nutree/1.0", "$format_version": "1.0"}, "nodes": [[0, "A"]]}
    malformed = [
        ("list instead of object", [[0, "A"]]),
        ("no meta", {"nodes": [[0, "A"]]}),
        ("no nodes", {"meta": good["meta"]}),
        ("no $generator", {"meta": {"$format_version": "1.0"}, "nodes": [[0, "A"]]}),
        ("foreign generator", {"meta": {"$generator": "othertool/1.0", "$format_version": "1.0"}, "nodes": [[0, "A"]]}),
        ("generator is a number", {"meta": {"$generator": 7}, "nodes": []}),
        ("plain string", "nutree/1.0"),
        ("number", 12),
        ("null", None),
        ("meta is empty", {"meta": {}, "nodes": [[0, "A"]]}),
    ]
    for cls in (Tree, TypedTree):
        for name, doc in malformed:
            try:
                cls.load(io.StringIO(json.dumps(doc)))
                bad.append(f"malformed document ({name}) was accepted by {cls.__name__}.load")
            except Exception:
                res.count("malformed_rejected")
        for nm, doc in (("minimal", good), ("empty tree", {"meta": good["meta"], "nodes": []})):
            try:
                t = cls.load(io.StringIO(json.dumps(doc)))
                if t.count != len(doc["nodes"]):
                    bad.append(f"{nm} document loads to {t.count} nodes")
                res.count("wellformed_minimal_loaded")
            except Exception:
                bad.append(f"well-formed {nm} document rejected by {cls.__name__}.load: " + short_tb(3))
        # an empty tree written by the library itself
        try:
            fp = io.StringIO()
            cls("e").save(fp)
            fp.seek(0)
            if cls.load(fp).count != 0:
                bad.append("empty tree does not round trip")
        except Exception:
            bad.append(f"saving/loading an empty {cls.__name__} raised: " + short_tb(3))
    if bad:
        res.violation(case, "; ".join(bad[:3])[:3000], n_bad=len(bad))


def run_case(case, res):
    k = case["kind"]
    if k == "writer":
        return run_writer(case, res)
    if k == "reader":
        return run_reader(case, res)
    return run_examples(case, res)


NSHARDS = 16
GENERATORS = ["nutree/0.5.1", "nutree/1.0.0", "nutree/0.9.1-a1"]


def shards(tier, seed):
    out = [{"name": f"writer{i}", "kind": "writer", "i": i, "bound": 5 if tier == "quick" else 8,
            "rand": 20 if tier == "quick" else 6000, "budget_s": 150 if tier == "quick" else 3600} for i in range(NSHARDS)]
    out += [{"name": f"reader{i}", "kind": "reader", "i": i, "count": 80 if tier == "quick" else 40000,
             "budget_s": 100 if tier == "quick" else 3600} for i in range(NSHARDS)]
    out.append({"name": "examples", "kind": "examples", "budget_s": 60})
    # reader and writer cases once more in a process whose locale encoding is not UTF-8 (C locale, UTF-8 mode and locale
    # coercion switched off): the document format is UTF-8 whatever the environment says
    cenv = {"LC_ALL": "C", "LANG": "C", "PYTHONUTF8": "0", "PYTHONCOERCECLOCALE": "0"}
    out.append({"name": "clocale-reader", "kind": "reader", "i": 900, "count": 60 if tier == "quick" else 3000, "budget_s": 100 if tier == "quick" else 1800, "env": cenv})
    out.append({"name": "clocale-writer", "kind": "writer", "i": 901, "bound": 0, "rand": 20 if tier == "quick" else 1500, "budget_s": 150 if tier == "quick" else 1800,
                "env": cenv})
    return out


def run_shard(spec, res):
    seed = spec["seed"]
    if spec["kind"] == "examples":
        run_case({"kind": "examples"}, res)
        return
    if spec["kind"] == "writer":
        k = 0
        kms, vms = list(sergen.KEY_MAPS), list(sergen.VALUE_MAPS)
        for n in range(0, spec["bound"] + 1):
            for f in gen.forests(n):
                for fl in sergen.FLAVOURS:
                    k += 1
                    if k % NSHARDS != spec["i"]:
                        continue
                    j = k // NSHARDS
                    for d in range(3):
                        run_case({"kind": "writer", "f": gen.code(f), "flavour": fl, "seed": seed,
                                  "km": kms[(j + d) % 3], "vm": vms[(j // 3 + d * 2) % 3],
                                  "reuse_meta": (j + d) % 4 == 0, "path": (j + d) % 5 == 0}, res)
                if res.expired():
                    res.inconc("enumeration cut by time budget")
                    return
        rng = rng_for(seed, "c12w-rand", spec["i"])
        for c in range(spec["rand"]):
            f = gen.random_forest(rng, rng.randint(5, 25))
            run_case({"kind": "writer", "f": gen.code(f), "flavour": rng.choice(sergen.FLAVOURS), "seed": rng.randrange(10**6),
                      "km": rng.choice(kms), "vm": rng.choice(vms), "reuse_meta": rng.random() < 0.3, "path": rng.random() < (0.8 if spec.get("env") else 0.3),
                      **({"env": spec["env"]} if spec.get("env") else {})}, res)
            if res.expired():
                break
    else:
        rng = rng_for(seed, "c12r", spec["i"])
        for c in range(spec["count"]):
            typed = rng.random() < 0.5
            variant = {"key_map": rng.choice([False, True, "partial"]), "value_map": rng.random() < 0.5, "refs": rng.random() < 0.7,
                       "plain_str": rng.random() < 0.5, "omit_default_kind": rng.random() < 0.3, "generator": rng.choice(GENERATORS),
                       "user_meta": rng.random() < 0.5, "user_short_keys": rng.random() < 0.4, "via_path": rng.random() < (0.9 if spec.get("env") else 0.3), "typed_plain_str": rng.random() < 0.5, "consuming": rng.random() < 0.35, "subclass": rng.random() < 0.35, "nested": rng.random() < 0.4}
            run_case({"kind": "reader", "seed": rng.randrange(10**9), "typed": typed, "variant": variant, **({"env": spec["env"]} if spec.get("env") else {})}, res)
            if res.expired():
                break
