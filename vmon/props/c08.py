"""C08 - filtering keeps exactly the accepted nodes and their ancestors.

Monitor: result vs. definition.  A predicate driven by a verdict assignment is
handed to the real filter()/filtered()/copy(predicate=); the resulting tree and
the predicate's call sequence are compared with a set-based definition.
"""

from __future__ import annotations

import itertools

from .. import gen
from ..core import CaseTimeout, case_deadline, rng_for, short_tb, note_exc

PROP = "C08"
LEVEL = "exploration"
RULE = ("case = (forest shape, verdict per node from {T,F,N,K=SkipBranch,Z=SkipBranch(and_self=False),S=SelectBranch,"
        "X=stop}, signal form returned/raised/StopIteration, entry = tree or branch node); each case runs filter (in "
        "place), filtered and copy(predicate) and compares result, predicate call sequence, identities and source; all "
        "assignments on all forests up to the bound, random assignments on larger trees; non-trivial = >= 3 nodes in the "
        "filtered branch and >= 2 different verdicts among the nodes the predicate is asked about")
ASSUMPTIONS = [
    "a predicate *returning the class object* of a signal is unspecified and not generated",
    "for Node.filter/filtered/copy the start node itself is never judged and always kept",
]
MECH = ["nutree.node:Node._add_filtered", "nutree.node:Node.filter", "nutree.node:Node.filtered",
        "nutree.common:call_predicate", "nutree.tree:Tree.filter", "nutree.tree:Tree.filtered", "nutree.tree:Tree.copy"]
MIN_NONTRIVIAL = {"quick": 20000, "thorough": 300000}
EXHAUSTIVE = {"quick": True, "thorough": True}
V = "TFNKZSX"
KNOWN_DUP = "filtered.accepted-node-duplicated"


class Shape:
    def __init__(self, f):
        self.kids = {-1: []}
        self.par = {}
        cnt = [0]

        def rec(p, lst):
            for k in lst:
                i = cnt[0]
                cnt[0] += 1
                self.kids[p].append(i)
                self.kids[i] = []
                self.par[i] = p
                rec(i, k)

        rec(-1, f)
        self.n = cnt[0]

    def whole(self, i):
        return (i, [self.whole(c) for c in self.kids[i]])


def expected(sh, start, assign):
    """Definition.  Returns (kept nested [(idx, kids)], predicate call sequence)."""
    calls = []
    stopped = [False]

    def scan(i):
        out = []
        for c in sh.kids[i]:
            if stopped[0]:
                break
            calls.append(c)
            v = assign[c]
            if v == "X":
                stopped[0] = True
                break
            if v == "T":
                out.append((c, scan(c)))
            elif v in "FN":
                sub = scan(c)
                if sub:
                    out.append((c, sub))
            elif v == "S":
                out.append(sh.whole(c))
            elif v == "K":
                pass
            elif v == "Z":
                out.append((c, []))
        return out

    return scan(start), calls


def dup_model(exp, sh, assign, start=-1):
    """Defect model for the copying form: every node accepted by T or Z (and not copied
    as part of a selected branch) carries an extra leaf copy of itself as first child."""

    def under_select(i):
        p = sh.par[i]
        while p != -1 and p != start:
            if assign[p] == "S":
                return True
            p = sh.par[p]
        return False

    def rec(lst):
        out = []
        for i, kids in lst:
            k = rec(kids)
            if assign[i] in "TZ" and not under_select(i):
                k = [(i, [])] + k
            out.append((i, k))
        return out

    return rec(exp)


def simulate_dup(sh, start, assign, LABEL, add_self):
    """Executable model of the listed defect in the copying form: when a node is accepted (T or Z) the
    copy routine first materialises the node itself as a pending parent and then adds it once more
    below that copy.  With clones this second copy can collide with a kept child of the same data_id
    (UniqueConstraintError).  Returns the nested result [(label, id, kids)] or "COLLISION"."""

    class Collision(Exception):
        pass

    class Stop(Exception):
        pass

    def new(i):
        return [LABEL[i][0], LABEL[i][1], []]

    def add(parent, i):
        if any(c[1] == LABEL[i][1] for c in parent[2]):
            raise Collision()
        n = new(i)
        parent[2].append(n)
        return n

    def add_from(parent, i):
        for c in sh.kids[i]:
            n = add(parent, c)
            add_from(n, c)

    root = ["<root>", None, []]
    top = root
    if add_self:
        top = add(root, start)
    stack = [(True, top)]

    def create_parents():
        p = stack[0][1]
        for k, (existing, x) in enumerate(stack):
            if existing:
                p = x
            else:
                p = add(p, x)
                stack[k] = (True, p)
        return p

    def visit(i):
        for c in sh.kids[i]:
            stack.append((False, c))
            v = assign[c]
            if v == "Z":
                p = create_parents()
                add(p, c)
            elif v == "X":
                raise Stop()
            elif v == "S":
                p = create_parents()
                add_from(p, c)
            elif v in "FN":
                visit(c)
            elif v == "T":
                p = create_parents()
                add(p, c)
                visit(c)
            stack.pop()

    try:
        visit(start)
    except Stop:
        pass
    except Collision:
        return "COLLISION"

    def tup(n):
        return (n[0], n[1], [tup(k) for k in n[2]])

    return [tup(k) for k in root[2]]


def make_pred(assign, form, calls, idx_of):
    from nutree import SelectBranch, SkipBranch, StopTraversal

    def pred(node):
        i = idx_of[id(node)]
        calls.append(i)
        v = assign[i]
        if v == "T":
            return True
        if v == "F":
            return False
        if v == "N":
            return None
        if v == "X" and form == "stopiter":
            raise StopIteration
        obj = {"K": SkipBranch(), "Z": SkipBranch(and_self=False), "S": SelectBranch(), "X": StopTraversal()}[v]
        if form == "ret":
            return obj
        raise obj

    return pred


def calls_bad(calls, expcalls):
    """What the property fixes about the predicate's invocations: every node of the definition's scan
    is asked, in that order; no node is asked twice; nothing is asked after the stop signal.  (Asking
    about nodes below a selected/skipped branch and ignoring the answer would be allowed.)"""
    if len(set(calls)) != len(calls):
        return "a node was asked about twice"
    it = iter(calls)
    if not all(any(c == x for x in it) for c in expcalls):
        return f"the scan order {expcalls} is not a subsequence"
    if expcalls and calls and calls[-1] != expcalls[-1] and len(calls) > len(expcalls):
        # something was asked after the last node of the definition's scan (e.g. after a stop)
        tail = calls[calls.index(expcalls[-1]) + 1:]
        if tail:
            return f"nodes {tail} were asked about after the scan had ended"
    return None


def nest_idx(holder, idx_of):
    return [(idx_of[c.data], nest_idx(c, idx_of)) for c in holder.children]


def nest_ident(holder):
    return [(id(c), id(c.data), c.data_id, nest_ident(c)) for c in holder.children]


def reachable(t):
    out = []

    def rec(h):
        for c in h.children:
            out.append(c)
            rec(c)

    rec(t)
    return out


def run_case(case, res):
    from nutree import Tree

    f = gen.decode(case["f"])
    sh = Shape(f)
    assign = case["assign"]
    form = case["form"]
    start = case["start"]
    exp, expcalls = expected(sh, start, assign)
    asked = {assign[c] for c in expcalls}
    branch_n = len(sh.whole(start)[1]) if start != -1 else sh.n
    sub_n = _count(sh, start)
    res.case(case, nontrivial=sub_n >= 3 and len(asked) >= 2)
    for v in asked:
        res.count(f"verdict:{v}:{form}")
    bad = []

    lab = case.get("lab", "uniq")
    lrng = rng_for(case.get("lseed", 0), "c08-lab", case["f"])
    clabs = gen.clone_labeling(lrng, f, ["a", "b", "c"]) if lab == "clones" else None
    if lab == "clones" and clabs is None:
        lab = "uniq"

    typed = bool(case.get("typed"))

    def fresh():
        if typed:
            from nutree.typed_tree import TypedTree

            t = TypedTree("t")
            nodes = gen.build(t, f, lambda i: f"n{i}", kind=lambda i: "ka" if (i * 7 + i // 2) % 3 else "kb")
            return t, nodes, {id(nd): i for i, nd in enumerate(nodes)}
        if lab == "ext":
            X = gen.ext_classes()
            t = X["XTree"]("t")
            nodes = gen.build(t, f, lambda i: f"n{i}")
            return t, nodes, {id(nd): i for i, nd in enumerate(nodes)}
        if lab == "fwd":
            # a plain tree that forwards attribute access to its data objects, whose attributes include names the typed
            # classes use (`kind`); filtering must not care
            t = Tree("t", forward_attrs=True, calc_data_id=lambda tree, d: d.key)
            nodes = gen.build(t, f, lambda i: _Fwd(f"n{i}"))
            return t, nodes, {id(nd): i for i, nd in enumerate(nodes)}
        t = Tree("t", calc_data_id=lambda tree, d: "hook:" + str(d)) if lab == "hookids" else Tree("t")
        if lab in ("eqsib", "hookids"):
            # (`hookids`: the tree has an id rule of its own, the nodes carry explicit ids that deviate from it - kept nodes keep them)
            nodes = gen.build(t, f, lambda i: "x", data_id=lambda i: f"id{i}")
        elif lab == "clones":
            nodes = gen.build(t, f, lambda i: clabs[i])
        else:
            nodes = gen.build(t, f, lambda i: f"n{i}")
        return t, nodes, {id(nd): i for i, nd in enumerate(nodes)}

    _t0, _n0, _ = fresh()
    LABEL = [(str(nd.data), nd.data_id) for nd in _n0]

    def lab_nest(lst):
        return [(LABEL[i][0], LABEL[i][1], lab_nest(k)) for i, k in lst]

    def nest_lab(holder):
        return [(str(c.data), c.data_id, nest_lab(c)) for c in holder.children]

    def attempt(fn):
        try:
            return fn()
        except Exception as e:
            return ("EXC", type(e).__name__, short_tb(4))

    try:
        with case_deadline(30):
            # ---------------- in place ---------------------------------------
            t, nodes, idx_of = fresh()
            calls = []
            pred = make_pred(assign, form, calls, idx_of)
            holder = t if start == -1 else nodes[start]
            outside_before = nest_ident(t) if start == -1 else None
            r = attempt(lambda: holder.filter(pred))
            res.count("inplace_runs")
            if isinstance(r, tuple):
                bad.append(f"filter() raised {r[1]}: {r[2]}")
            else:
                got = nest_lab(holder)
                res.observe("filter_results", got)
                if got != lab_nest(exp):
                    bad.append(f"filter() result {got}, expected {lab_nest(exp)}")
                elif calls_bad(calls, expcalls):
                    bad.append(f"filter() asked the predicate about {calls}: {calls_bad(calls, expcalls)}")
                else:
                    # survivors keep their identity; count agrees
                    def same(lst, hold):
                        return all(c is nodes[i] and same(k, c) for (i, k), c in zip(lst, hold.children))

                    if not same(exp, holder):
                        bad.append("filter() replaced surviving nodes by other objects")
                    if t.count != len(reachable(t)):
                        bad.append(f"after filter(): count {t.count} != reachable {len(reachable(t))}")
                    if start != -1:
                        # nothing outside the branch changed
                        t0, nodes0, _ = fresh()
                        def outside(tt, nn):
                            def rec(h):
                                return [(str(c.data), c.data_id, rec(c) if c is not nn[start] else "BRANCH") for c in h.children]
                            return rec(tt)
                        if outside(t, nodes) != outside(t0, nodes0):
                            bad.append("filter() on a branch changed nodes outside the branch")
            # ---------------- copying forms ------------------------------------
            forms = ["filtered", "copy"] if start == -1 else ["filtered", "copy_self", "copy_noself"]
            # typed trees: same forms; the comparison is by (data, data_id, shape) - the *kind* of copied nodes is C07's subject
            for which in forms:
                t, nodes, idx_of = fresh()
                calls = []
                pred = make_pred(assign, form, calls, idx_of)
                holder = t if start == -1 else nodes[start]
                before = nest_ident(t)
                if which == "filtered":
                    r = attempt(lambda: holder.filtered(pred))
                elif which == "copy":
                    r = attempt(lambda: holder.copy(predicate=pred))
                elif which == "copy_self":
                    r = attempt(lambda: holder.copy(add_self=True, predicate=pred))
                else:
                    r = attempt(lambda: holder.copy(add_self=False, predicate=pred))
                res.count("copying_runs")
                sim = simulate_dup(sh, start, assign, LABEL, add_self=(start != -1 and which != "copy_noself"))
                if isinstance(r, tuple):
                    if r[1] == "UniqueConstraintError" and sim == "COLLISION":
                        res.known_finding(KNOWN_DUP, case)
                        res.count("known_dup_collision")
                    else:
                        bad.append(f"{which} raised {r[1]}: {r[2]}")
                    continue
                if nest_ident(t) != before:
                    bad.append(f"{which} modified the source tree")
                if r is t:
                    bad.append(f"{which} returned the source tree")
                got = nest_lab(r)
                if start == -1 or which == "copy_noself":
                    e = lab_nest(exp)
                else:
                    e = lab_nest([(start, exp)])
                if calls_bad(calls, expcalls):
                    bad.append(f"{which} asked the predicate about {calls}: {calls_bad(calls, expcalls)}")
                if got == e:
                    res.count("copying_equal_definition")
                    # data objects are shared with the source
                    srcdata = {id(nd.data) for nd in nodes}
                    for c in reachable(r):
                        if id(c.data) not in srcdata:
                            bad.append(f"{which}: copied node holds a different data object")
                            break
                else:
                    if sim != "COLLISION" and got == sim:
                        res.known_finding(KNOWN_DUP, case)
                    else:
                        bad.append(f"{which} result {got}, expected {e}")
                if r.count != len(reachable(r)):
                    bad.append(f"{which}: count {r.count} != reachable {len(reachable(r))}")
    except CaseTimeout:
        res.inconc("case watchdog fired")
        return
    except Exception:
        note_exc(res, bad, "exception escaped from the library: ")
    if bad:
        res.violation(case, "; ".join(bad[:2])[:2500], n_bad=len(bad))


class _Fwd:
    """Data object for the forward_attrs flavour."""

    def __init__(self, key):
        self.key = key
        self.kind = "a-data-attribute"
        self.title = key.upper()

    def __str__(self):
        return self.key

    __repr__ = __str__


def _count(sh, start):
    def rec(i):
        return sum(1 + rec(c) for c in sh.kids[i])

    return rec(start)


NSHARDS = 16


def shards(tier, seed):
    full = 4 if tier == "quick" else 5
    out = [{"name": f"enum{i}", "kind": "enum", "i": i, "full": full, "budget_s": 200 if tier == "quick" else 2400}
           for i in range(NSHARDS)]
    out += [{"name": f"rand{i}", "kind": "rand", "i": i, "count": 150 if tier == "quick" else 4000,
             "budget_s": 90 if tier == "quick" else 1200} for i in range(NSHARDS)]
    out.append({"name": "known-probe", "kind": "probe", "budget_s": 30})
    # random cases once more under `python -O`: filtering must not depend on side effects of assert statements
    out += [{"name": f"opt{i}", "kind": "rand", "i": 300 + i, "count": 100 if tier == "quick" else 2000, "pyopt": True,
             "budget_s": 90 if tier == "quick" else 1200} for i in range(2)]
    return out


def run_shard(spec, res):
    seed = spec["seed"]
    if spec["kind"] == "probe":
        # minimal input of the listed finding: one node accepted by True
        run_case({"f": "()", "assign": "T", "form": "ret", "start": -1}, res)
        run_case({"f": "(())", "assign": "FZ", "form": "raise", "start": -1}, res)
        return
    if spec["kind"] == "enum":
        k = 0
        for n in range(0, spec["full"] + 1):
            for f in gen.forests(n):
                fc = gen.code(f)
                for a in itertools.product(V, repeat=n):
                    k += 1
                    if k % NSHARDS != spec["i"]:
                        continue
                    assign = "".join(a)
                    small = n <= 3
                    forms = ["ret", "raise", "stopiter"] if small else [["ret", "raise", "stopiter"][k // NSHARDS % 3]]
                    if "X" not in assign:
                        forms = [x for x in forms if x != "stopiter"] or ["raise"]
                    starts = [-1] + (list(range(n)) if small else [(k // NSHARDS) % n])
                    for form in forms:
                        for s in starts:
                            run_case({"f": fc, "assign": assign, "form": form, "start": s}, res)
                    if n >= 2 and (k // NSHARDS) % 3 == 0:
                        run_case({"f": fc, "assign": assign, "form": forms[0], "start": starts[0], "typed": True}, res)
                    if n >= 2:
                        lab = ["eqsib", "clones", "fwd", "ext", "hookids"][(k // NSHARDS) % 5]
                        run_case({"f": fc, "assign": assign, "form": forms[0], "start": starts[0], "lab": lab, "lseed": k}, res)
                if res.expired():
                    res.count("exhaustive_cut")
                    res.inconc("enumeration cut by time budget")
                    return
    else:
        rng = rng_for(seed, "c08-rand", spec["i"])
        for j in range(spec["count"]):
            f = gen.random_forest(rng, rng.randint(5, 25))
            n = gen.size(f)
            w = rng.choice([[6, 5, 2, 1, 1, 1, 0.3], [3, 3, 1, 2, 2, 2, 1], [1, 6, 1, 1, 1, 1, 0.2]])
            assign = "".join(rng.choices(V, weights=w, k=n))
            run_case({"f": gen.code(f), "assign": assign, "form": rng.choice(["ret", "raise", "stopiter"]),
                      "start": rng.choice([-1, -1, rng.randrange(n)]), "lab": rng.choice(["uniq", "eqsib", "clones", "fwd", "ext", "hookids"]),
                      "lseed": rng.randrange(10**6), "typed": rng.random() < 0.25, **({"pyopt": True} if spec.get("pyopt") else {})}, res)
            if res.expired():
                break


def summarize(total):
    return {"verdict_x_form_cells": {k[8:]: v for k, v in total.counters.items() if k.startswith("verdict:")}}
