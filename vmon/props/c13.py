"""C13 - refused or failing operations do not corrupt the tree.

(a) refusals: every call that the reference model classifies as documented-invalid or as a
    uniqueness/ambiguity refusal is executed; if it raises, the identity snapshot of the tree
    must be unchanged and the C01-C03 monitors must hold (history engine + a table of further
    invalid-call classes).
(b) callback faults: for every (operation x callback role) cell the operation is first run
    clean to learn how often the callback is invoked (N), then re-run on fresh trees with the
    callback raising at invocation k, for every k in 1..N (fault enumeration).  Afterwards the
    C01-C03 monitors must hold on every tree involved; read-only operations must leave the
    identity snapshot unchanged.
"""

from __future__ import annotations

import io
import json

from .. import gen, hist, wf
from ..core import CaseTimeout, case_deadline, rng_for, short_tb
from . import c04

PROP = "C13"
LEVEL = "fault_enumeration"
RULE = ("(a) one-step cases (state, op, arguments) incl. all documented-invalid argument classes, hostile histories, and a "
        "table of further invalid calls; (b) fault cases (tree shape, labeling, operation x callback-role cell): all fault "
        "positions k=1..N of the cell are enumerated inside the case (N<=200, beyond: first/last 50 + 100 sampled); "
        "non-trivial = refusal on a state with >= 3 nodes, or a fault cell with N >= 2; distinct by case description")
ASSUMPTIONS = ["the exception type of an invalid-argument refusal is not checked (only uniqueness/ambiguity have documented types)",
               "a documented-invalid call that does not raise is not a refusal; only C01-C03 are checked after it",
               "injected fault = a private Exception subclass that is not an IterationControl"]
MECH = ["nutree.node:Node.add_child", "nutree.node:Node._calc_insert_pos", "nutree.node:Node._add_nodes", "nutree.tree:Tree._register",
        "nutree.node:Node.move_to", "nutree.node:Node.set_data", "nutree.node:Node.remove", "nutree.node:Node.filter",
        "nutree.node:Node._add_filtered", "nutree.node:Node.sort_children", "nutree.node:Node.to_list_iter", "nutree.tree:Tree.save",
        "nutree.tree:Tree._from_list", "nutree.node:Node.from_dict", "nutree.common:call_mapper", "nutree.common:call_predicate"]
MIN_NONTRIVIAL = {"quick": 10000, "thorough": 100000}
MIN_COUNTERS = {"quick": {"faults_injected": 5000, "refusals_state_compared": 5000, "table_refusals": 300},
                "thorough": {"faults_injected": 50000, "refusals_state_compared": 50000, "table_refusals": 3000}}
OWN = "C13"


def _node_kind(c):
    from nutree.typed_tree import TypedNode

    return c.kind if isinstance(c, TypedNode) else None


class InjectedFault(Exception):
    pass


class Faulty:
    """Wraps a user callback; raises at the k-th armed invocation."""

    def __init__(self, fn, k=None):
        self.fn = fn
        self.k = k
        self.calls = 0
        self.armed = False

    def __call__(self, *a, **kw):
        if self.armed:
            self.calls += 1
            if self.k is not None and self.calls == self.k:
                raise InjectedFault(f"injected at call {self.k}")
        return self.fn(*a, **kw)


class O:
    def __init__(self, guid, name):
        self.guid = guid
        self.name = name

    def __str__(self):
        return self.name

    def __repr__(self):
        return f"O({self.guid},{self.name})"


def _content(d):
    """Content of mutable data objects (the tree is 'unchanged' only if what its nodes carry is, too)."""
    inner = getattr(d, "_dict", None)
    if isinstance(inner, dict):
        return sorted((repr(k), repr(v)) for k, v in inner.items())
    if isinstance(d, O):
        return (d.guid, d.name)
    return None


def _forwarded(c):
    """what `node.guid` answers (forward_attrs trees over O objects hand on the data's attribute; others raise)"""
    if not isinstance(c.data, O):
        return None
    try:
        return ("fwd", c.guid)
    except AttributeError:
        return ("no-forwarding",)


def ident(t):
    def rec(h):
        return [(id(c), id(c.data), c.data_id, _node_kind(c), dict(c.meta) if c.meta else None, id(c.parent), id(c.tree),
                 _content(c.data), c.is_leaf(), _forwarded(c), rec(c))
                for c in h.children]

    return (t.count, rec(t))


def check_wf(t, tag, bad, id_rule=None):
    errs, nodes = wf.wf_graph(t)
    if errs:
        bad.append(f"{tag}: C01 monitor: " + "; ".join(errs[:2]))
        return
    e3 = wf.wf_siblings(t, nodes)
    if e3:
        bad.append(f"{tag}: C03 monitor: " + "; ".join(e3[:2]))
    e2 = wf.wf_index(t, nodes, probe_ids=["nope"], id_of_data=id_rule)
    if e2:
        bad.append(f"{tag}: C02 monitor: " + "; ".join(e2[:2]))


# ---------------------------------------------------------------------------------
# (b) fault cells.  Each cell: setup(case, faulty) -> (trees involved, run(), readonly)
# ---------------------------------------------------------------------------------
def _build(case, *, calc=None, typed=False):
    from nutree import Tree
    from nutree.typed_tree import TypedTree

    f = gen.decode(case["f"])
    rng = rng_for(case.get("seed", 0), "c13", case["f"], case["lab"])
    n = gen.size(f)
    cls = TypedTree if typed else Tree
    # trees over objects forward attribute access to their data (`node.guid`): that setting is part of the tree's observable
    # state, too - a failed operation may not switch it off
    fwd = {"forward_attrs": True} if case["lab"] == "obj" else {}
    t = cls("t", calc_data_id=calc, **fwd) if calc else cls("t", **fwd)
    if case["lab"] == "dw":
        from nutree.common import DictWrapper

        dicts = [{"title": "".join(["T", str(i % 3)]), "n": i, "kind_of": "x"} for i in range(max(2, n // 2 + 1))]
        labs = gen.clone_labeling(rng, f, list(range(len(dicts)))) or list(range(n))
        if len(dicts) < n and labs == list(range(n)):
            dicts = [{"title": "".join(["T", str(i % 3)]), "n": i, "kind_of": "x"} for i in range(n)]
        label = lambda i: DictWrapper(dicts[labs[i]])
    elif case["lab"] == "obj":
        pool = [O(f"g{i}", f"o{i}") for i in range(max(2, n // 2 + 1))]
        labs = gen.clone_labeling(rng, f, list(range(len(pool)))) or list(range(n))
        if len(pool) < n and labs == list(range(n)):
            pool = [O(f"g{i}", f"o{i}") for i in range(n)]
        label = lambda i: pool[labs[i]]
    else:
        labs = gen.clone_labeling(rng, f, ["a", "b", "c", "d", "e"]) or [f"n{i}" for i in range(n)]
        label = lambda i: labs[i]
    nodes = gen.build(t, f, label, kind=(lambda i: "kab"[i % 3]) if typed else None)
    return t, nodes


def _objrule(tree, data):
    return data.guid if isinstance(data, O) else hash(data)


CELLS = {}


def cell(name, *, lab="str"):
    def deco(fn):
        CELLS[name] = (fn, lab)
        return fn

    return deco


# ---- calc_data_id role -------------------------------------------------------------------
@cell("calc_id:add", lab="obj")
def _(case, F):
    fy = F(_objrule)
    t, nodes = _build(case, calc=fy)
    new = O("gNEW", "new")
    tgt = nodes[len(nodes) // 2] if nodes else t
    return [t], (lambda: tgt.add(new)), False, fy


@cell("calc_id:add_node_deep", lab="obj")
def _(case, F):
    fy = F(_objrule)
    t, nodes = _build(case, calc=fy)
    t2, nodes2 = _build(case, calc=_objrule)
    src = nodes2[0] if nodes2 else None
    tgt = t.add(O("gT", "target"))
    return [t, t2], (lambda: tgt.add(src, deep=True) if src is not None else t.add(O("gz", "z"))), False, fy


@cell("calc_id:add_tree", lab="obj")
def _(case, F):
    fy = F(_objrule)
    t, nodes = _build(case, calc=fy)
    t2, nodes2 = _build(case, calc=_objrule)
    tgt = t.add(O("gT", "target"))
    return [t, t2], (lambda: tgt.add(t2) if nodes2 else t.add(O("gz", "z"))), False, fy


@cell("calc_id:set_data", lab="obj")
def _(case, F):
    fy = F(_objrule)
    t, nodes = _build(case, calc=fy)
    n = nodes[-1] if nodes else t.add(O("gq", "q"))
    return [t], (lambda: n.set_data(O("gNEW", "new"), with_clones=True)), False, fy


@cell("calc_id:find", lab="obj")
def _(case, F):
    fy = F(_objrule)
    t, nodes = _build(case, calc=fy)
    probe = nodes[0].data if nodes else O("g0", "o0")

    def run():
        t.find_all(probe)
        t.find_first(probe)
        _ = probe in t
        try:
            t[probe]
        except (KeyError, LookupError, RuntimeError):
            pass

    return [t], run, True, fy


@cell("calc_id:save", lab="obj")
def _(case, F):
    fy = F(_objrule)
    t, nodes = _build(case, calc=fy)

    def ser(node, data):
        data["n"] = node.data.name
        return data

    return [t], (lambda: t.save(io.StringIO(), mapper=ser)), True, fy


@cell("mapper:save_dictwrapper", lab="dw")
def _(case, F):
    from nutree.common import DictWrapper

    fy = F(lambda node, data: DictWrapper.serialize_mapper(node, data))
    t, nodes = _build(case)
    kw = {"key_map": {"title": "t", "n": "n"}, "value_map": {"title": ["T0", "T1", "T2"]}}
    return [t], (lambda: (t.save(io.StringIO(), mapper=fy, **kw), t.save(io.StringIO(), mapper=fy, key_map=False, value_map=False),
                          t.to_dict_list(mapper=fy))), True, fy


@cell("calc_id:copy", lab="obj")
def _(case, F):
    fy = F(_objrule)
    t, nodes = _build(case, calc=fy)
    return [t], (lambda: (t.copy(), nodes[0].copy() if nodes else None)), True, fy


@cell("calc_id:index_access", lab="obj")
def _(case, F):
    fy = F(_objrule)
    t, nodes = _build(case, calc=fy)
    probe = nodes[-1].data if nodes else O("g0", "o0")

    def run():
        for fn in (lambda: probe in t, lambda: t[probe], lambda: t.__delitem__(probe)):
            try:
                fn()
            except (KeyError, ValueError, LookupError):
                pass  # absent / ambiguous keys are refusals of their own

    return [t], run, False, fy


@cell("calc_id:rename")
def _(case, F):
    fy = F(_objrule)
    t, nodes = _build(case, calc=fy)
    n = nodes[0] if nodes else t.add(O("gq", "q"))

    def run():
        try:
            n.rename("renamed")
        except Exception as e:
            if type(e).__name__ in ("AmbiguousMatchError", "UniqueConstraintError"):
                return
            raise

    return [t], run, False, fy


# ---- the data object's own methods in a callback role ---------------------------------------------
# The default id rule is hash(data) and the default sort key / display name is str(data): a data class whose __hash__ or
# __str__ raises is "the id calculation" / "the sort key" failing, at the k-th evaluation, without any callback argument.
def _hooked(case, *, typed=False, fy_hash=None, fy_str=None):
    from nutree import Tree
    from nutree.typed_tree import TypedTree

    class H:
        __slots__ = ("key", "nm")

        def __init__(self, key, nm):
            self.key, self.nm = key, nm

        def __hash__(self):
            return fy_hash(self) if fy_hash is not None else hash(("H", self.key))

        def __eq__(self, other):
            return isinstance(other, H) and other.key == self.key

        def __str__(self):
            return fy_str(self) if fy_str is not None else self.nm

        def __repr__(self):
            return f"H({self.key})"

    f = gen.decode(case["f"])
    rng = rng_for(case.get("seed", 0), "c13h", case["f"])
    n = gen.size(f)
    pool = [H(i, "hnZyxwvuts"[i % 10] * (1 + i // 10)) for i in range(max(2, n // 2 + 1))]
    labs = gen.clone_labeling(rng, f, list(range(len(pool))))
    if not labs:
        pool = [H(i, "hnZyxwvuts"[i % 10] * (1 + i // 10)) for i in range(max(2, n))]
        labs = list(range(n))
    t = (TypedTree if typed else Tree)("t")
    nodes = gen.build(t, f, lambda i: pool[labs[i]], kind=(lambda i: "kab"[i % 3]) if typed else None)
    return t, nodes, H, pool


@cell("hash:add")
def _(case, F):
    fy = F(lambda o: hash(("H", o.key)))
    t, nodes, H, pool = _hooked(case, fy_hash=fy)
    tgt = nodes[len(nodes) // 2] if nodes else t
    new = H("new", "new")
    return [t], (lambda: (tgt.add(new), t.add(H("new2", "n2"), before=True), tgt.add(pool[0]) if tgt is not t and not tgt.children else None)), False, fy


@cell("hash:set_data")
def _(case, F):
    fy = F(lambda o: hash(("H", o.key)))
    t, nodes, H, pool = _hooked(case, fy_hash=fy)
    n = nodes[-1] if nodes else t.add(H("q", "q"))
    return [t], (lambda: n.set_data(H("new", "new"), with_clones=True)), False, fy


@cell("hash:find")
def _(case, F):
    fy = F(lambda o: hash(("H", o.key)))
    t, nodes, H, pool = _hooked(case, fy_hash=fy)
    probe = nodes[0].data if nodes else H(0, "h")

    def run():
        t.find_all(probe)
        t.find_first(probe)
        _ = probe in t
        _ = H("absent", "x") in t
        try:
            t[probe]
        except (KeyError, LookupError, RuntimeError):
            pass

    return [t], run, True, fy


@cell("hash:from_dict")
def _(case, F):
    fy = F(lambda o: hash(("H", o.key)))
    src, nodes, H, pool = _hooked(case, fy_hash=fy)
    doc = src.to_dict_list(mapper=lambda node, data: {"k": node.data.key})
    from nutree import Tree

    tgt = Tree("tgt")
    top = tgt.add("top")
    by_key = {o.key: o for o in pool}
    return [tgt, src], (lambda: top.from_dict(json.loads(json.dumps(doc)), mapper=lambda parent, item: by_key[item["k"]])), False, fy


@cell("hash:typed_add_tree")
def _(case, F):
    # a typed tree copied into another typed one: the copies keep their ids, the hash may be asked again for the new top nodes
    fy = F(lambda o: hash(("H", o.key)))
    src, nodes, H, pool = _hooked(case, typed=True, fy_hash=fy)
    from nutree.typed_tree import TypedTree

    tgt = TypedTree("tgt")
    top = tgt.add("top", kind="k")
    return [tgt, src], (lambda: (top.add(src) if nodes else None, tgt.add(H("z", "z"), kind="a"),
                                 tgt.add(nodes[0], kind="other", deep=True) if nodes else None)), False, fy


@cell("strkey:sort")
def _(case, F):
    fy = F(lambda o: o.nm)
    t, nodes, H, pool = _hooked(case, fy_str=fy)
    return [t], (lambda: (t.sort(), t.sort(reverse=True, deep=False))), False, fy


@cell("strkey:typed_sort_children")
def _(case, F):
    fy = F(lambda o: o.nm)
    t, nodes, H, pool = _hooked(case, typed=True, fy_str=fy)
    return [t], (lambda: (nodes[0] if nodes else t.system_root).sort_children(deep=True)), False, fy


@cell("strkey:readers")
def _(case, F):
    # every reader that shows the default name: format, pattern search, the exporters, save without a mapper
    fy = F(lambda o: o.nm)
    t, nodes, H, pool = _hooked(case, fy_str=fy)

    def run():
        t.format()
        t.format(style="list", repr="{node.name}")
        t.find_all(match=r".*[nZ].*")
        t.find_first(match=r"zz-never")
        list(t.to_dot())
        t.to_mermaid_flowchart(io.StringIO())
        if nodes:
            nodes[0].get_path()
            nodes[-1].path

    return [t], run, True, fy


# ---- an iterable the caller handed in fails while it is consumed ------------------------------------
class _Lazy:
    """A children collection that is produced item by item; `tick()` runs (and may raise) before every item."""

    def __init__(self, items, tick):
        self.items, self.tick = items, tick

    def __bool__(self):
        return bool(self.items)

    def __len__(self):
        return len(self.items)

    def __iter__(self):
        for it in self.items:
            self.tick()
            d = dict(it)
            if d.get("children"):
                d["children"] = _Lazy(d["children"], self.tick)
            yield d


@cell("iter:node_from_dict")
def _(case, F):
    fy = F(lambda: None)
    src, nodes = _build(case)
    doc = src.to_dict_list()
    from nutree import Tree

    tgt = Tree("tgt")
    top = tgt.add("top")
    tgt.add("sibling")
    return [tgt, src], (lambda: top.from_dict(_Lazy(doc, fy))), False, fy


# ---- predicate role --------------------------------------------------------------------------
def _pred(n):
    return str(n.data) in ("a", "b", "n1", "n3") or None


@cell("predicate:filter")
def _(case, F):
    fy = F(_pred)
    t, nodes = _build(case)
    return [t], (lambda: t.filter(fy)), False, fy


@cell("predicate:node_filter")
def _(case, F):
    fy = F(_pred)
    t, nodes = _build(case)
    return [t], (lambda: nodes[0].filter(fy) if nodes else t.filter(fy)), False, fy


@cell("predicate:typed_filter")
def _(case, F):
    fy = F(_pred)
    t, nodes = _build(case, typed=True)
    return [t], (lambda: t.filter(fy)), False, fy


@cell("predicate:typed_copy")
def _(case, F):
    fy = F(_pred)
    t, nodes = _build(case, typed=True)
    return [t], (lambda: (t.copy(predicate=fy), t.filtered(fy))), True, fy


@cell("predicate:filtered")
def _(case, F):
    fy = F(_pred)
    t, nodes = _build(case)
    return [t], (lambda: t.filtered(fy)), True, fy


@cell("predicate:copy")
def _(case, F):
    fy = F(_pred)
    t, nodes = _build(case)
    return [t], (lambda: (t.copy(predicate=fy), nodes[0].copy(predicate=fy) if nodes else None)), True, fy


@cell("predicate:find")
def _(case, F):
    fy = F(lambda n: str(n.data) in ("b", "c"))
    t, nodes = _build(case)
    return [t], (lambda: (t.find_all(match=fy), t.find_first(match=fy), nodes[0].find_all(match=fy, add_self=True) if nodes else None)), True, fy


# ---- mapper role --------------------------------------------------------------------------------
def _ser(node, data):
    data["x"] = str(node.data)
    return data


@cell("mapper:save", lab="obj")
def _(case, F):
    fy = F(lambda node, data: {"n": node.data.name, **data})
    t, nodes = _build(case, calc=_objrule)
    return [t], (lambda: t.save(io.StringIO(), mapper=fy)), True, fy


@cell("mapper:typed_save", lab="obj")
def _(case, F):
    fy = F(lambda node, data: {"n": node.data.name, **data})
    t, nodes = _build(case, calc=_objrule, typed=True)
    return [t], (lambda: t.save(io.StringIO(), mapper=fy)), True, fy


@cell("mapper:to_dict_list")
def _(case, F):
    fy = F(_ser)
    t, nodes = _build(case)
    return [t], (lambda: (t.to_dict_list(mapper=fy), nodes[0].to_dict(mapper=fy) if nodes else None)), True, fy


@cell("mapper:load", lab="obj")
def _(case, F):
    t, nodes = _build(case, calc=_objrule)
    fp = io.StringIO()
    t.save(fp, mapper=lambda node, data: {"n": node.data.name, **data})
    text = fp.getvalue()
    fy = F(lambda parent, data: O(data["data_id"], data["n"]))
    from nutree import Tree

    holder = []

    def run():
        holder.append(Tree.load(io.StringIO(text), mapper=fy))

    return [t], run, True, fy


@cell("mapper:from_dict")
def _(case, F):
    t, nodes = _build(case)
    doc = t.to_dict_list()
    fy = F(lambda parent, item: item["data"])
    from nutree import Tree

    tgt = Tree("tgt")
    top = tgt.add("top")
    return [tgt, t], (lambda: (Tree.from_dict(doc, mapper=fy), top.from_dict(json.loads(json.dumps(doc)), mapper=fy))), False, fy


@cell("mapper:to_dot")
def _(case, F):
    fy = F(lambda node, data: None)
    t, nodes = _build(case)
    return [t], (lambda: (list(t.to_dot(node_mapper=fy)), list(t.to_dot(edge_mapper=fy)), t.to_dotfile(io.StringIO(), node_mapper=fy))), True, fy


@cell("mapper:typed_to_dot")
def _(case, F):
    fy = F(lambda node, data: None)
    t, nodes = _build(case, typed=True)
    return [t], (lambda: (list(t.to_dot(node_mapper=fy)), list(t.to_dot(edge_mapper=fy)))), True, fy


def _mermaid(case, F):
    fy = F(lambda *a: "x --> y" if len(a) == 4 else str(a[0].data))
    t, nodes = _build(case)
    return [t], (lambda: (t.to_mermaid_flowchart(io.StringIO(), node_mapper=fy),
                          t.to_mermaid_flowchart(io.StringIO(), edge_mapper=fy))), True, fy


CELLS["mapper:mermaid"] = (lambda case, F: _mermaid(case, F), "str")


@cell("mapper:rdf")
def _(case, F):
    fy = F(lambda graph, gnode, tnode: None)
    t, nodes = _build(case)
    return [t], (lambda: (nodes[0].to_rdf_graph(node_mapper=fy) if nodes else None)), True, fy


# ---- sort key role ----------------------------------------------------------------------------------
@cell("sortkey:sort")
def _(case, F):
    fy = F(lambda n: str(n.data))
    t, nodes = _build(case)
    return [t], (lambda: t.sort(key=fy)), False, fy


@cell("sortkey:sort_children_deep")
def _(case, F):
    fy = F(lambda n: -len(n.children))
    t, nodes = _build(case)
    return [t], (lambda: (nodes[0] if nodes else t.system_root).sort_children(key=fy, deep=True, reverse=True)), False, fy


@cell("sortkey:typed_sort")
def _(case, F):
    # a typed tree whose siblings have interleaved kinds; the sort is deep, the key fails somewhere in the middle
    fy = F(lambda n: str(n.data)[::-1])
    t, nodes = _build(case, typed=True)
    return [t], (lambda: t.sort(key=fy, deep=True)), False, fy


@cell("sortkey:typed_sort_children")
def _(case, F):
    fy = F(lambda n: (len(n.children), str(n.data)))
    t, nodes = _build(case, typed=True)
    return [t], (lambda: (nodes[0] if nodes else t.system_root).sort_children(key=fy, reverse=True)), False, fy


# ---- visitor role -------------------------------------------------------------------------------------
def _mk_visit(method):
    def setup(case, F):
        from nutree import IterMethod

        fy = F(lambda n, memo: None)
        t, nodes = _build(case)
        return [t], (lambda: (t.visit(fy, method=IterMethod(method)), nodes[0].visit(fy, add_self=True, method=IterMethod(method)) if nodes else None)), True, fy

    return setup


for _m in ("pre", "post", "level"):
    CELLS[f"visitor:visit_{_m}"] = (_mk_visit(_m), "str")


# ---- repr role -------------------------------------------------------------------------------------------
@cell("repr:format")
def _(case, F):
    fy = F(lambda n: f"<{n.data}>")
    t, nodes = _build(case)
    return [t], (lambda: (t.format(repr=fy), t.format(repr=fy, style="list"), nodes[0].format(repr=fy) if nodes else None)), True, fy


def run_fault_case(case, res):
    fn, lab = CELLS[case["cell"]]
    case = dict(case)
    case["lab"] = lab
    bad = []
    try:
        with case_deadline(120):
            # clean run to learn N
            trees, run, readonly, fy = fn(case, lambda f: Faulty(f, None))
            before = [ident(t) for t in trees]
            fy.armed = True
            try:
                run()
            except Exception as e:
                # not a fault-injection matter (e.g. the listed C08 finding makes filtered() raise on clones)
                res.count(f"clean_run_raised:{case['cell']}:{type(e).__name__}")
                res.case(case, nontrivial=False)
                return
            fy.armed = False
            N = fy.calls
            res.count(f"cell:{case['cell']}", 1)
            res.count(f"cellN:{case['cell']}", N)
            if readonly and [ident(t) for t in trees] != before:
                bad.append("read-only operation changed the tree in the clean run")
            for t in trees:
                check_wf(t, "clean run", bad)
            ks = list(range(1, N + 1))
            if N > 200:
                rng = rng_for(case.get("seed", 0), "ks", case["cell"], case["f"])
                ks = sorted(set(ks[:50] + ks[-50:] + rng.sample(ks, 100)))
                res.count("fault_positions_sampled")
            for k in ks:
                trees, run, readonly, fy = fn(case, lambda f, k=k: Faulty(f, k))
                before = [ident(t) for t in trees]
                fy.armed = True
                propagated = False
                try:
                    run()
                except InjectedFault:
                    propagated = True
                except Exception as e:
                    res.count(f"fault_converted:{type(e).__name__}")
                    propagated = True
                fy.armed = False
                res.count("faults_injected")
                if not propagated:
                    res.count("faults_swallowed")
                for i, t in enumerate(trees):
                    # lookups by data object are re-checked too (the id rule of the tree must still be in force)
                    rule = (lambda d: _objrule(None, d)) if lab == "obj" else None  # every tree of an obj cell is keyed by this rule
                    check_wf(t, f"fault at call {k}/{N}", bad, id_rule=rule)
                    if (readonly or i > 0) and ident(t) != before[i]:
                        bad.append(f"fault at call {k}/{N}: {'read-only operation' if readonly else 'source tree'} was changed")
                if len(bad) > 3:
                    break
            res.case(case, nontrivial=N >= 2)
    except CaseTimeout:
        res.inconc("case watchdog fired")
        return
    except Exception:
        res.inconc("fault harness error: " + short_tb())
        return
    if bad:
        res.violation(case, "; ".join(bad[:2])[:2500], n_bad=len(bad))


# ---------------------------------------------------------------------------------
# (a) table of further invalid calls
# ---------------------------------------------------------------------------------
def invalid_table(t, nodes, other, onodes, typed_t, tnodes):
    """yield (name, callable) - each callable is documented-invalid."""
    from nutree import IterMethod

    a = nodes[0]
    last = nodes[-1]
    leaf = next((x for x in nodes if not x.children), a)
    inner = next((x for x in nodes if x.children), None)
    yield "before=node of another tree", lambda: t.add("NEW", before=onodes[0])
    yield "before=node of another tree (node)", lambda: a.add("NEW", before=onodes[0])
    yield "before=node on empty parent", lambda: leaf.add("NEW", before=a)
    yield "before=garbage", lambda: a.add("NEW", before="zzz")
    yield "move_to foreign tree", lambda: a.move_to(other)
    yield "move_to foreign node", lambda: a.move_to(onodes[0])
    yield "move_to before=foreign", lambda: last.move_to(t, before=onodes[0])
    yield "move_to before=garbage", lambda: last.move_to(t, before=3.5)
    if inner is not None:
        yield "move_to own child", lambda: inner.move_to(inner.children[0])
        yield "deep copy with data_id", lambda: t.add(inner, deep=True, data_id="Q")
        yield "deep copy with node_id", lambda: t.add(inner, deep=True, node_id=77)
    yield "move_to self", lambda: a.move_to(a)
    yield "copy with conflicting data_id", lambda: last.add(a, data_id="other-id")
    yield "copy_to(add_self=False) of a leaf", lambda: leaf.copy_to(t, add_self=False)
    yield "set_data nothing", lambda: a.set_data(None)
    yield "rename non-str", lambda: typed_or_int_rename(t)
    yield "up(0)", lambda: a.up(0)
    yield "up(beyond root)", lambda: a.up(99)
    yield "tree[node]", lambda: t[a]
    yield "tree[absent]", lambda: t["no such key"]
    yield "del tree[absent]", lambda: t.__delitem__("no such key")
    yield "duplicate node_id", lambda: t.add("NEW", node_id=a.node_id)
    yield "filter(None)", lambda: t.filter(None)
    yield "filtered(None)", lambda: t.filtered(None)
    yield "format bad style", lambda: t.format(style="nosuch")
    yield "visit unsupported method", lambda: t.visit(lambda n, m: None, method=IterMethod.ZIGZAG)
    yield "load malformed", lambda: type(t).load(io.StringIO('{"meta": {}, "nodes": []}'))
    yield "add untyped node to typed tree", lambda: typed_t.add(a)
    yield "add untyped tree to typed tree", lambda: typed_t.add(t)
    yield "typed move_to", lambda: tnodes[0].move_to(typed_t)
    yield "typed bad kind", lambda: typed_t.add("NEW", kind=123)
    yield "typed: deep copy of an untyped branch whose data objects have a non-str `kind` attribute", lambda: _fwd_branch_into_typed(typed_t)
    yield "typed: kind omitted and the class default is not a str", lambda: typed_t.add("NEW-nokind")
    yield "typed: kind omitted and the class default is not a str (node)", lambda: tnodes[0].add("NEW-nokind")
    yield "typed before=node of other parent", lambda: tnodes[0].add("NEW", kind="k", before=tnodes[0])
    yield "typed: add tree colliding at 2nd node (other kind)", lambda: _collide_typed_tree(typed_t, tnodes)
    yield "typed: copy_to(add_self=False) colliding at 2nd child (other kind)", lambda: _collide_typed_children(typed_t, tnodes)
    yield "from_dict on a node that has children", lambda: (inner or t._root).from_dict([{"data": "fd-new-1"}, {"data": "fd-new-2"}])
    yield "from_dict on a node that has children, colliding item", lambda: (inner or t._root).from_dict(
        [{"data": "fd-new-1"}, {"data": (inner or t).children[0].data, "data_id": (inner or t).children[0].data_id}])
    yield "from_dict with a colliding item (empty node)", lambda: leaf.from_dict([{"data": "fd-1"}, {"data": "fd-2"}, {"data": "fd-1"}])
    yield "from_dict with a mapper raising at the 2nd item (node with children)", lambda: (inner or t._root).from_dict(
        [{"data": "fd-new-1"}, {"data": "fd-new-2"}], mapper=_raise_at_second())
    yield "add tree colliding at 2nd node", lambda: _collide_tree(t, other)
    yield "copy_to(add_self=False) colliding at 2nd child", lambda: _collide_children(t, nodes)


def typed_or_int_rename(t):
    n = t.add(12345)
    try:
        n.rename("x")
    finally:
        n.remove()


def _fwd_branch_into_typed(typed_t):
    import enum

    from nutree import Tree

    class K(enum.Enum):
        A = 1

    class D:
        def __init__(self, name, kind):
            self.name, self.kind = name, kind

        def __repr__(self):
            return f"D({self.name})"

    src = Tree("fwd", forward_attrs=True, calc_data_id=lambda tree, d: d.name)
    top = src.add(D("fwd-top", "ok"))
    top.add(D("fwd-1", "ok")).add(D("fwd-11", K.A))
    top.add(D("fwd-2", K.A))
    typed_t.add(top, kind="k", deep=True)


def _with_child(a):
    if not a.children:
        a.add("fd-existing")
    return a


def _raise_at_second():
    calls = []

    def mapper(parent, data):
        calls.append(1)
        if len(calls) == 2:
            raise InjectedFault("mapper fails at its 2nd call")
        return data["data"]

    return mapper


def _collide_typed_tree(typed_t, tnodes):
    from nutree.typed_tree import TypedTree

    src = TypedTree("src")
    src.add("zz-fresh-1", kind="k2").add("zz-below", kind="k2")
    src.add(tnodes[1].data, kind="k2")  # same data_id as a top node of the target, other kind
    src.add("zz-fresh-2", kind="k2")
    typed_t.add(src)


def _collide_typed_children(typed_t, tnodes):
    from nutree.typed_tree import TypedTree

    src = TypedTree("src")
    top = src.add("top", kind="k2")
    top.add("zz-fresh-1", kind="k2")
    top.add(tnodes[0].data, kind="k3")
    top.copy_to(typed_t, add_self=False, deep=True)


def _collide_tree(t, other):
    from nutree import Tree

    src = Tree("src")
    src.add("zz-fresh-1")
    src.add(t.children[0].data, data_id=t.children[0].data_id)
    src.add("zz-fresh-2")
    t.add(src)


def _collide_children(t, nodes):
    from nutree import Tree

    src = Tree("src")
    top = src.add("top")
    top.add("zz-fresh-1")
    top.add(t.children[-1].data, data_id=t.children[-1].data_id)
    top.copy_to(t, add_self=False, deep=True)


def run_table_case(case, res):
    from nutree import Tree
    from nutree.typed_tree import TypedTree

    bad = []
    try:
        with case_deadline(60):
            def fresh():
                t, nodes = _build({**case, "lab": "str"})
                if not nodes:
                    nodes = [t.add("only")]
                other = Tree("other")
                onodes = [other.add("o1"), other.add("o2")]
                class NoDefaultKindTree(TypedTree):
                    DEFAULT_CHILD_TYPE = None  # a subclass that wants every caller to state the kind

                tt = NoDefaultKindTree("typed")
                tn = [tt.add("t1", kind="k"), tt.add("t2", kind="k")]
                return t, nodes, other, onodes, tt, tn

            names = [nm for nm, _ in invalid_table(*fresh())]
            for i, nm in enumerate(names):
                env = fresh()
                call = [c for n_, c in invalid_table(*env)][i]
                trees = [env[0], env[2], env[4]]
                before = [ident(x) for x in trees]
                try:
                    call()
                    res.count(f"table_not_refused:{nm}")
                    raised = False
                except Exception:
                    raised = True
                    res.count("table_refusals")
                    res.count(f"table:{nm}")
                for x, b, tag in zip(trees, before, ("tree", "other tree", "typed tree")):
                    check_wf(x, f"after '{nm}' on {tag}", bad)
                    if raised and ident(x) != b:
                        bad.append(f"refused call '{nm}' changed the {tag}")
            res.case(case, nontrivial=True)
    except CaseTimeout:
        res.inconc("case watchdog fired")
        return
    except Exception:
        res.inconc("table harness error: " + short_tb())
        return
    if bad:
        res.violation(case, "; ".join(bad[:3])[:2500], n_bad=len(bad))


def run_case(case, res):
    k = case.get("kind")
    if k == "fault":
        return run_fault_case(case, res)
    if k == "table":
        return run_table_case(case, res)
    if k == "onestep":
        return c04.run_onestep(case, res, own_prop=OWN)
    s = hist.run_history(case, res, own_prop=OWN)
    res.case(case, nontrivial=getattr(s, "nsteps", 0) >= 3 and s.max_nodes >= 4)


NSHARDS = 16


def shards(tier, seed):
    bound, tb = (4, 3) if tier == "quick" else (5, 4)
    out = [{"name": f"one{i}", "kind": "one", "i": i, "bound": bound, "typed_bound": tb,
            "budget_s": 200 if tier == "quick" else 3000} for i in range(NSHARDS)]
    out += [{"name": f"hist{i}", "kind": "hist", "i": i, "count": 120 if tier == "quick" else 5000,
             "budget_s": 100 if tier == "quick" else 1500} for i in range(NSHARDS)]
    out += [{"name": f"fault{i}", "kind": "fault", "i": i, "bound": 5 if tier == "quick" else 6,
             "rand": 3 if tier == "quick" else 40, "budget_s": 150 if tier == "quick" else 2400} for i in range(NSHARDS)]
    out += [{"name": f"table{i}", "kind": "table", "i": i, "count": 3 if tier == "quick" else 40, "budget_s": 100} for i in range(4)]
    return out


def run_shard(spec, res):
    seed = spec["seed"]
    if spec["kind"] == "one":
        for case in c04.onestep_cases(spec["bound"], spec["typed_bound"], spec["i"], NSHARDS):
            run_case(case, res)
            if res.expired():
                res.inconc("enumeration cut by time budget")
                return
    elif spec["kind"] == "hist":
        rng = rng_for(seed, "c13-hist", spec["i"])
        for j in range(spec["count"]):
            run_case({"seed": rng.randrange(10**9), "profile": "c03", "flavour": rng.choice(hist.FLAVOURS),
                      "idconf": rng.choice(["default", "callback", "subclass"]), "typed": rng.random() < 0.25,
                      "steps": rng.choice([10, 20, 40]), "hostile": True, "allow_unspec": False}, res)
            if res.expired():
                break
    elif spec["kind"] == "fault":
        cells = sorted(CELLS)
        k = 0
        for n in range(1, spec["bound"] + 1):
            for f in gen.forests(n):
                for c in cells:
                    k += 1
                    if k % NSHARDS != spec["i"]:
                        continue
                    # all cells on all shapes <= 4, rotating cells beyond
                    if n > 4 and (k // NSHARDS) % 4:
                        continue
                    run_case({"kind": "fault", "f": gen.code(f), "cell": c, "seed": seed}, res)
                    if res.expired():
                        res.inconc("fault enumeration cut by time budget")
                        return
        rng = rng_for(seed, "c13-fault-rand", spec["i"])
        for j in range(spec["rand"]):
            f = gen.random_forest(rng, rng.randint(8, 30))
            for c in rng.sample(cells, 6):
                run_case({"kind": "fault", "f": gen.code(f), "cell": c, "seed": rng.randrange(10**6)}, res)
            if res.expired():
                break
    else:
        rng = rng_for(seed, "c13-table", spec["i"])
        for j in range(spec["count"]):
            f = gen.random_forest(rng, rng.randint(3, 12))
            run_case({"kind": "table", "f": gen.code(f), "seed": rng.randrange(10**6)}, res)


def summarize(total):
    return {"fault_cells": {k[5:]: {"cases": v, "fault_positions": total.counters.get("cellN:" + k[5:], 0)}
                            for k, v in total.counters.items() if k.startswith("cell:")},
            "invalid_table_refusals": {k[6:]: v for k, v in total.counters.items() if k.startswith("table:")},
            "invalid_table_not_refused": {k[18:]: v for k, v in total.counters.items() if k.startswith("table_not_refused:")},
            "op_outcomes": {k[3:]: v for k, v in total.counters.items() if k.startswith("op:") and ":refuse" in k}}
