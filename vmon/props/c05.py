"""C05 - save() then load() reproduces the tree under every storage option.

Monitor: differential round trip.  The observable shape of the loaded tree (class, shape,
order, data as rebuilt by the mapper, data_ids, kinds, clone groups) is compared with the
source for option tuples drawn from the full matrix key_map x value_map x compression x
target, for nine tree flavours (callback and derived-class mappers).
"""

from __future__ import annotations

import copy
import io
import os
import shutil
import tempfile

from .. import gen, sergen
from ..core import CaseTimeout, case_deadline, rng_for, short_tb, note_exc

PROP = "C05"
LEVEL = "exploration"
RULE = ("case = (forest shape or random forest seed, flavour in 9 {plain/typed x str/str+explicit ids/objects with callback "
        "mappers/derived-class mappers, DictWrapper}, labeling seed, list of option tuples (key_map, value_map, compression, "
        "target)); every case saves and loads the tree once per option tuple; tuples cycle through the full 3x3x6x2 matrix; "
        "non-trivial = >= 4 nodes with a clone group; distinct by (shape, flavour, seed, tuples)")
ASSUMPTIONS = ["default ids of salted/identity-hashed data are compared as 'is the hash of its own data'",
               "str entries with an explicit data_id are loaded with a mapper (documented requirement)",
               "compression applies to path targets only; with a stream target the argument is ignored by the library"]
MECH = ["nutree.node:Node.to_list_iter", "nutree.node:Node._make_list_entry", "nutree.node:Node._compress_entry",
        "nutree.typed_tree:TypedNode._make_list_entry", "nutree.tree:Tree.save", "nutree.tree:Tree.load", "nutree.tree:Tree._from_list",
        "nutree.tree:Tree._uncompress_entry", "nutree.typed_tree:TypedTree.save", "nutree.typed_tree:TypedTree._from_list",
        "nutree.typed_tree:TypedTree.load", "nutree.common:open_as_compressed_output_stream",
        "nutree.common:open_as_uncompressed_input_stream"]
MIN_NONTRIVIAL = {"quick": 500, "thorough": 2500}
MIN_COUNTERS = {"quick": {"distinct_option_tuples_x1000": 108000}, "thorough": {"distinct_option_tuples_x1000": 108000}}
ALL = sergen.option_tuples()


def run_case(case, res):
    f = gen.decode(case["f"])
    rng = rng_for(case["seed"], "c05", case["f"], case["flavour"])
    bad = []
    tmp = tempfile.mkdtemp(prefix="vmon-c05-")
    try:
        with case_deadline(120):
            t, save_kw, load_cls, load_kw = sergen.build_source(case["flavour"], f, rng)
            src = sergen.shape(t)
            n = t.count
            res.case(case, nontrivial=n >= 4 and t.count_unique < n)
            shared_vm = None
            # half of the cases hand the *same* dict to every load (it still holds the previous file's header then)
            fmeta_shared = {} if (case["seed"] + sum(case["tuples"])) % 2 else None
            for ti in case["tuples"]:
                km_name, vm_name, comp_name, tgt = ALL[ti]
                km = sergen.key_map_for(case["flavour"], km_name)
                vm = copy.deepcopy(sergen.VALUE_MAPS[vm_name])
                comp = sergen.COMPRESSIONS[comp_name]
                user_meta = {"foo": "bar", "n": 1}
                meta_before = dict(user_meta)
                km_before, vm_before = copy.deepcopy(km), copy.deepcopy(vm)
                label = f"{case['flavour']} key_map={km_name} value_map={vm_name} compression={comp_name} target={tgt}"
                res.count("round_trips")
                res.count(f"tuple:{ti}")
                try:
                    fmeta = {} if fmeta_shared is None else fmeta_shared
                    if tgt == "path":
                        pth = os.path.join(tmp, "tree.nutree")
                        if rng.random() < 0.3:
                            # the file exists already and is longer than what is written now (an earlier, larger tree)
                            with open(pth, "wb") as _fp:
                                _fp.write(b'{"meta": {"$generator": "nutree/0"}, "nodes": [[0, "stale"]]}\n' * 2000)
                            res.count("saves_over_a_longer_file")
                        t.save(pth, compression=comp, meta=user_meta, key_map=km, value_map=vm, **save_kw)
                        t2 = load_cls.load(pth, file_meta=fmeta, **load_kw)
                        if case["flavour"] == "fs":
                            # the file says which keys were shortened; a base-class loader with the same mappers reads the same tree
                            from nutree import Tree as _BaseTree

                            from nutree.fs import FileSystemTree as _FST

                            tb = _BaseTree.load(pth, mapper=_FST.deserialize_mapper)
                            res.count("base_class_loads")
                            if sergen.shape(tb) != src:
                                bad.append(f"[{label}] Tree.load() with the FileSystemTree mappers differs: {sergen.shape(tb)} vs {src}")
                        if comp is False:
                            # the caller opens the file (as UTF-8 text, the documented encoding of the format) and hands the stream on
                            with open(pth, encoding="utf8") as _fp:
                                t2s = load_cls.load(_fp, **load_kw)
                            res.count("loads_from_a_stream_the_caller_opened")
                            if sergen.shape(t2s) != src:
                                bad.append(f"[{label}] loading the saved file through a text stream opened by the caller differs")
                        if comp is False and load_cls.__name__ in ("Tree", "MyTree", "FileSystemTree"):
                            # a file that was written uncompressed can be read with the detection switched off
                            t2c = load_cls.load(pth, auto_uncompress=False, **load_kw)
                            res.count("loads_without_auto_uncompress")
                            if sergen.shape(t2c) != src:
                                bad.append(f"[{label}] load(auto_uncompress=False) of an uncompressed file differs")
                        if rng.random() < 0.3:
                            # the file is the document: a copy under another name (moved, archived, downloaded) loads the same
                            pth2 = os.path.join(tmp, "copy of tree (1).bak")
                            shutil.copyfile(pth, pth2)
                            t2m = load_cls.load(pth2, **load_kw)
                            res.count("loads_of_a_renamed_copy")
                            if sergen.shape(t2m) != src:
                                bad.append(f"[{label}] a copy of the file under another name loads differently")
                        if rng.random() < 0.3:
                            from pathlib import Path

                            t2b = load_cls.load(Path(pth), **load_kw)
                            if sergen.shape(t2b) != src:
                                bad.append(f"[{label}] loading through a Path object differs")
                    else:
                        # an open stream is written and read at its current position: a third of the documents sit
                        # behind something the application wrote first (in memory, or in a real file opened for update)
                        r_ = rng.random()
                        fp = io.StringIO() if r_ < 0.8 else open(os.path.join(tmp, "stream.txt"), "w+", encoding="utf8")
                        try:
                            if r_ > 0.6:
                                fp.write("# application header \u00e4\n[1, 2]\n")
                                res.count("stream_documents_behind_a_prefix")
                            start = fp.tell()
                            t.save(fp, meta=user_meta, key_map=km, value_map=vm, **save_kw)
                            fp.seek(start)
                            t2 = load_cls.load(fp, file_meta=fmeta, **load_kw)
                        finally:
                            fp.close()
                except CaseTimeout:
                    raise
                except Exception:
                    bad.append(f"[{label}] save/load raised: " + short_tb(5))
                    continue
                if type(t2) is not load_cls:
                    bad.append(f"[{label}] loaded tree is a {type(t2).__name__}, loading class {load_cls.__name__}")
                got = sergen.shape(t2)
                if got != src:
                    bad.append(f"[{label}] loaded tree differs: {got} vs source {src}")
                if t2.count != t.count or t2.count_unique != t.count_unique:
                    bad.append(f"[{label}] count {t2.count}/{t2.count_unique} vs {t.count}/{t.count_unique}")
                if fmeta.get("foo") != "bar" or fmeta.get("n") != 1 or "$generator" not in fmeta or not fmeta.get("$format_version"):
                    bad.append(f"[{label}] file meta not handed back: {fmeta}")
                # the handed-back header names the maps the file was written with
                eff_km = (getattr(type(t), "DEFAULT_KEY_MAP", {}) if km is True else {} if km is False else km_before)
                if eff_km and fmeta.get("$key_map") != eff_km:
                    bad.append(f"[{label}] file_meta['$key_map'] is {fmeta.get('$key_map')!r}, the file was written with {eff_km!r}")
                if isinstance(vm_before, dict) and vm_before and not isinstance(fmeta.get("$value_map"), dict):
                    bad.append(f"[{label}] file_meta lacks the '$value_map' the file was written with")
                # the caller's option objects are inputs: save() does not write into them
                if km != km_before or vm != vm_before:
                    bad.append(f"[{label}] save() modified the caller's key_map / value_map object: {km!r} / {vm!r}")
                if sergen.shape(t) != src:
                    bad.append(f"[{label}] save() changed the source tree")
                if user_meta != meta_before:
                    bad.append(f"[{label}] save() modified the caller's meta dict")
                if len(bad) > 4:
                    break
            # the same option *objects* used for a second, different tree must work as well
            if case.get("reuse"):
                f2 = gen.random_forest(rng, rng.randint(1, 6))
                t_b, save_kw_b, load_cls_b, load_kw_b = sergen.build_source(case["flavour"], f2, rng)
                km = sergen.key_map_for(case["flavour"], "custom")
                vm = copy.deepcopy(sergen.VALUE_MAPS["custom"])
                try:
                    for tree_x, lc, lk, sk in ((t, load_cls, load_kw, save_kw), (t_b, load_cls_b, load_kw_b, save_kw_b)):
                        if hasattr(tree_x.children[0] if tree_x.children else None, "kind") and tree_x is t_b:
                            # give the second typed tree a kind the first one does not have
                            tree_x.add("extra-node", kind="k-only-in-second") if case["flavour"] == "typed_str" else None
                        fp = io.StringIO()
                        tree_x.save(fp, key_map=km, value_map=vm, **sk)
                        fp.seek(0)
                        back = lc.load(fp, **lk)
                        if sergen.shape(back) != sergen.shape(tree_x):
                            bad.append("re-using the caller's key_map/value_map objects for a second tree: loaded tree differs")
                    res.count("option_reuse_runs")
                except CaseTimeout:
                    raise
                except Exception:
                    bad.append("re-using the caller's key_map/value_map objects for a second tree raised: " + short_tb(5))
    except CaseTimeout:
        res.inconc("case watchdog fired")
    except Exception:
        note_exc(res, bad, "exception escaped from the library: ")
    finally:
        shutil.rmtree(tmp, ignore_errors=True)
    if bad:
        res.violation(case, "; ".join(bad[:2])[:3000], n_bad=len(bad))


NSHARDS = 16


def shards(tier, seed):
    out = [{"name": f"enum{i}", "kind": "enum", "i": i, "bound": 5 if tier == "quick" else 6, "per": 4 if tier == "quick" else 24,
            "budget_s": 200 if tier == "quick" else 3600} for i in range(NSHARDS)]
    out += [{"name": f"rand{i}", "kind": "rand", "i": i, "count": 40 if tier == "quick" else 1000, "per": 6 if tier == "quick" else 216,
             "budget_s": 150 if tier == "quick" else 3600} for i in range(NSHARDS)]
    return out


def tuples_for(j, per):
    if per >= len(ALL):
        return list(range(len(ALL)))
    return [(j * 7 + k * 31) % len(ALL) for k in range(per)]


def run_shard(spec, res):
    seed = spec["seed"]
    j = spec["i"] * 1000
    if spec["kind"] == "enum":
        k = 0
        for n in range(0, spec["bound"] + 1):
            for f in gen.forests(n):
                for fl in sergen.FLAVOURS:
                    k += 1
                    if k % NSHARDS != spec["i"]:
                        continue
                    j += 1
                    run_case({"f": gen.code(f), "flavour": fl, "seed": seed, "tuples": tuples_for(j, spec["per"]), "reuse": k % 5 == 0}, res)
                if res.expired():
                    res.inconc("enumeration cut by time budget")
                    return
    else:
        rng = rng_for(seed, "c05-rand", spec["i"])
        for c in range(spec["count"]):
            f = gen.random_forest(rng, rng.randint(5, 20))
            j += 1
            run_case({"f": gen.code(f), "flavour": rng.choice(sergen.FLAVOURS), "seed": rng.randrange(10**6),
                      "tuples": tuples_for(j, spec["per"]), "reuse": rng.random() < 0.3}, res)
            if res.expired():
                break


def post_merge(total):
    tuples = sorted(int(k[6:]) for k in total.counters if k.startswith("tuple:"))
    total.counters["distinct_option_tuples_x1000"] = len(tuples) * 1000


def summarize(total):
    tuples = sorted(int(k[6:]) for k in total.counters if k.startswith("tuple:"))
    return {"option_tuples_covered": len(tuples), "option_tuples_total": len(ALL)}
