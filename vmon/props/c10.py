"""C10 - relationship queries agree with the tree's actual shape.

Monitor: cross-check.  Every query is recomputed from the `children` lists
obtained by walking down from `tree.children` (identity everywhere).
"""

from __future__ import annotations

from .. import gen
from ..core import CaseTimeout, case_deadline, rng_for, short_tb, note_exc

PROP = "C10"
LEVEL = "exploration"
RULE = ("case = (tree class, forest shape, labeling in {unique, clones, equal-comparing siblings with distinct ids}); "
        "for each case every node and every ordered pair of nodes is queried; all forests up to the tier's bound "
        "plus random larger ones; non-trivial = >= 4 nodes, height >= 2 and some parent with >= 2 children")
ASSUMPTIONS = ["shape is defined by the children lists reachable from tree.children"]
MECH = [
    "nutree.node:Node.get_siblings", "nutree.node:Node.prev_sibling", "nutree.node:Node.next_sibling",
    "nutree.node:Node.get_index", "nutree.node:Node.calc_depth", "nutree.node:Node.calc_height",
    "nutree.node:Node.count_descendants", "nutree.node:Node.up", "nutree.node:Node.get_top",
    "nutree.node:Node.is_descendant_of", "nutree.node:Node.get_common_ancestor",
    "nutree.node:Node.get_parent_list", "nutree.node:Node.get_path", "nutree.tree:Tree.calc_height",
]
MIN_NONTRIVIAL = {"quick": 800, "thorough": 8000}
EXHAUSTIVE = {"quick": True, "thorough": True}
LABELINGS = ["uniq", "clones", "eqsib"]


def make_tree(case, rng):
    from nutree import Tree
    from nutree.typed_tree import TypedTree

    f = gen.decode(case["f"])
    typed = case.get("cls") in ("typed", "ext_typed")
    if case.get("cls", "").startswith("ext"):
        # user-extension classes: always-falsy nodes with a `name` of their own; relationship queries must not care
        X = gen.ext_classes()
        t = (X["XTypedTree"] if typed else X["XTree"])("t")
    else:
        t = (TypedTree if typed else Tree)("t")
    n = gen.size(f)
    lab = case["lab"]
    # two-character kinds built at run time: equal strings, distinct objects
    # (the names contain one another: "k" < "ka" < "kab")
    kind = (lambda i: "".join(["k", ["", "a", "ab"][(i * 7 + 1) % 3]])) if typed else None
    # application-supplied node ids on some (or all) nodes of every other tree: node_id != id(node) from then on
    nid_mode = rng.choice([None, None, "some", "all"])
    nid = (lambda i: (5000 + i) if (nid_mode == "all" or i % 2 == 0) else None) if nid_mode else None
    if lab == "uniq":
        nodes = gen.build(t, f, lambda i: f"n{i}", kind=kind, node_id=nid)
    elif lab == "clones":
        labs = gen.clone_labeling(rng, f, "abc") or [f"n{i}" for i in range(n)]
        nodes = gen.build(t, f, lambda i: labs[i], kind=kind, node_id=nid)
    else:  # equal-comparing siblings, distinct explicit ids
        nodes = gen.build(t, f, lambda i: "xy"[rng.random() < 0.25], kind=kind, data_id=lambda i: f"id{i}", node_id=nid)
    return t, nodes


history_prelude = gen.history_prelude


def ident(lst):
    return [id(x) for x in lst]


def run_case(case, res):
    rng = rng_for(case.get("seed", 0), "c10", case["f"], case["lab"])
    t, nodes = make_tree(case, rng)
    typed = case.get("cls") in ("typed", "ext_typed")
    f = gen.decode(case["f"])
    if case.get("prelude"):
        nodes = history_prelude(t, nodes, rng_for(case.get("seed", 0), "c10-prelude", case["f"], case["lab"]), typed)
    n = len(nodes)
    nontrivial = n >= 4 and gen.height(f) >= 2 and any(len(x.children) >= 2 for x in nodes + [t._root])
    res.case(case, nontrivial=nontrivial)

    # --- independent recomputation from children lists ------------------
    par = {}
    kids = {}
    order = []
    depth = {}

    def rec(holder, p, d):
        lst = list(holder.children)
        kids[id(holder) if p is not None or holder is not t else "root"] = lst
        for c in lst:
            par[id(c)] = p
            depth[id(c)] = d
            order.append(c)
            kids[id(c)] = None
            rec(c, c, d + 1)

    rec(t, None, 1)
    kids["root"] = list(t.children)
    for x in order:
        kids[id(x)] = list(x.children)

    def anc(x):
        out = []
        p = par[id(x)]
        while p is not None:
            out.append(p)
            p = par[id(p)]
        return out[::-1]

    def desc(x):
        out = []
        for c in kids[id(x)]:
            out.append(c)
            out += desc(c)
        return out

    def hgt(x):
        return 0 if not kids[id(x)] else 1 + max(hgt(c) for c in kids[id(x)])

    bad = []

    def chk(name, got, exp, node=None):
        res.count("queries")
        if isinstance(exp, list) and (not exp or hasattr(exp[0], "_data_id")) and isinstance(got, list):
            ok = ident(got) == ident(exp)
        elif exp is None or hasattr(exp, "_data_id") or hasattr(exp, "_node_by_id"):
            ok = got is exp
        else:
            ok = got == exp and type(got) is type(exp)
        if not ok:
            bad.append(f"{name} of #{next((k for k, o in enumerate(order) if o is node), "-")}: got {got!r}, expected {exp!r}")

    def attempt(fn):
        try:
            return fn()
        except Exception:
            return ("EXC",)  # which exception type refuses an invalid level is not constrained

    kw = {"any_kind": True} if typed else {}
    try:
        with case_deadline(30):
            if ident(order) != ident(nodes):
                bad.append("walk from tree.children does not give the built nodes in pre-order")
            for x in order:
                p = par[id(x)]
                sibs = kids[id(p)] if p is not None else kids["root"]
                i = [k for k, s in enumerate(sibs) if s is x][0]
                K = kids[id(x)]
                chk("parent", x.parent, p, x)
                chk("children", x.children, K, x)
                if not typed:
                    chk("get_children", x.get_children(), K, x)
                    chk("first_child", x.first_child(), K[0] if K else None, x)
                    chk("last_child", x.last_child(), K[-1] if K else None, x)
                    chk("has_children", x.has_children(), bool(K), x)
                if typed:
                    # children by kind: every kind name in use (they contain one another) and an absent one
                    for kd in ("k", "ka", "kab", "kabc"):
                        kk = [c for c in K if c.kind == kd]
                        q = "".join([kd[:1], kd[1:]])
                        chk(f"has_children({kd})", x.has_children(q), bool(kk), x)
                        chk(f"get_children({kd})", x.get_children(q), kk, x)
                        chk(f"first_child({kd})", x.first_child(q), kk[0] if kk else None, x)
                        chk(f"last_child({kd})", x.last_child(q), kk[-1] if kk else None, x)
                    # typed trees: both the any_kind variants (= untyped answers) and the kind-aware
                    # defaults (= the sibling list filtered by kind) must agree with the shape
                    same = [q for q in sibs if q.kind == x.kind]
                    j = [k for k, q in enumerate(same) if q is x][0]
                    chk("get_siblings(any_kind)", x.get_siblings(any_kind=True), [q for q in sibs if q is not x], x)
                    chk("first_sibling(any_kind)", x.first_sibling(any_kind=True), sibs[0], x)
                    chk("last_sibling(any_kind)", x.last_sibling(any_kind=True), sibs[-1], x)
                    chk("prev_sibling(any_kind)", x.prev_sibling(any_kind=True), sibs[i - 1] if i > 0 else None, x)
                    chk("next_sibling(any_kind)", x.next_sibling(any_kind=True), sibs[i + 1] if i + 1 < len(sibs) else None, x)
                    chk("get_index(any_kind)", attempt(lambda: x.get_index(any_kind=True)), i, x)
                    chk("is_first_sibling(any_kind)", x.is_first_sibling(any_kind=True), i == 0, x)
                    chk("is_last_sibling(any_kind)", x.is_last_sibling(any_kind=True), i == len(sibs) - 1, x)
                    chk("get_siblings()", x.get_siblings(), [q for q in same if q is not x], x)
                    chk("first_sibling()", x.first_sibling(), same[0], x)
                    chk("last_sibling()", x.last_sibling(), same[-1], x)
                    chk("prev_sibling()", x.prev_sibling(), same[j - 1] if j > 0 else None, x)
                    chk("next_sibling()", x.next_sibling(), same[j + 1] if j + 1 < len(same) else None, x)
                    chk("get_index()", attempt(lambda: x.get_index()), j, x)
                    chk("is_first_sibling()", x.is_first_sibling(), j == 0, x)
                    chk("is_last_sibling()", x.is_last_sibling(), j == len(same) - 1, x)
                else:
                  chk("get_siblings", x.get_siblings(**kw), [s for s in sibs if s is not x], x)
                  chk("get_siblings(add_self)", list(x.get_siblings(add_self=True, **kw)), sibs, x)
                  chk("first_sibling", x.first_sibling(**kw), sibs[0], x)
                  chk("last_sibling", x.last_sibling(**kw), sibs[-1], x)
                  chk("prev_sibling", x.prev_sibling(**kw), sibs[i - 1] if i > 0 else None, x)
                  chk("next_sibling", x.next_sibling(**kw), sibs[i + 1] if i + 1 < len(sibs) else None, x)
                  chk("get_index", attempt(lambda: x.get_index(**kw)), i, x)
                  chk("is_first_sibling", x.is_first_sibling(**kw), i == 0, x)
                  chk("is_last_sibling", x.is_last_sibling(**kw), i == len(sibs) - 1, x)
                chk("depth", x.depth(), depth[id(x)], x)
                chk("calc_depth", x.calc_depth(), depth[id(x)], x)
                chk("calc_height", x.calc_height(), hgt(x), x)
                A = anc(x)
                chk("get_top", x.get_top(), (A + [x])[0], x)
                chk("get_parent_list", x.get_parent_list(), A, x)
                chk("get_parent_list(add_self)", x.get_parent_list(add_self=True), A + [x], x)
                chk("get_parent_list(bottom_up)", x.get_parent_list(bottom_up=True), A[::-1], x)
                chk("get_parent_list(add_self,bottom_up)", x.get_parent_list(add_self=True, bottom_up=True), [x] + A[::-1], x)
                chk("path", x.path, "/" + "/".join(gen.expected_name(a) for a in A + [x]), x)
                chk("get_path(add_self=False)", x.get_path(add_self=False), "/" + "/".join(gen.expected_name(a) for a in A), x)
                chk("get_path(sep)", x.get_path(separator="|", repr="<{node.data}>"), "|" + "|".join(f"<{a.data}>" for a in A + [x]), x)
                D = desc(x)
                chk("count_descendants", x.count_descendants(), len(D), x)
                chk("count_descendants(leaves_only)", x.count_descendants(leaves_only=True), sum(1 for y in D if not kids[id(y)]), x)
                chk("is_top", x.is_top(), p is None, x)
                chk("is_leaf", x.is_leaf(), not K, x)
                chk("is_system_root", x.is_system_root(), False, x)
                chk("tree", x.tree, t, x)
                chain = A[::-1] + [t.system_root]
                for lvl in range(0, depth[id(x)] + 2):
                    if lvl == 0 or lvl > depth[id(x)]:
                        exp = ("EXC",)
                    else:
                        exp = chain[lvl - 1]
                    chk(f"up({lvl})", attempt(lambda: x.up(lvl)), exp, x)
                for y in order:
                    B = anc(y)
                    chk("is_descendant_of", x.is_descendant_of(y), any(a is y for a in A), x)
                    chk("is_ancestor_of", x.is_ancestor_of(y), any(b is x for b in B), x)
                    common = None
                    for a, b in zip(A + [x], B + [y]):
                        if a is b:
                            common = a
                        else:
                            break
                    chk("get_common_ancestor", x.get_common_ancestor(y), common, x)
                    res.count("pairs")
            # a twin of this tree (same shape, same data, same node ids where they were given): nodes of another tree are no
            # relatives of this tree's nodes, whatever ids they carry
            if order and not case.get("prelude"):
                t2, nodes2 = make_tree(case, rng_for(case.get("seed", 0), "c10", case["f"], case["lab"]))
                for x, y in list(zip(order, nodes2))[:4] + [(order[-1], nodes2[0])]:
                    chk("get_common_ancestor(<node of a twin tree>)", attempt(lambda: x.get_common_ancestor(y)), None, x)
                    chk("is_ancestor_of(<node of a twin tree>)", attempt(lambda: x.is_ancestor_of(y)), False, x)
                    chk("is_descendant_of(<node of a twin tree>)", attempt(lambda: x.is_descendant_of(y)), False, x)
                    res.count("twin_tree_pairs")
            lv = [x for x in order if not kids[id(x)]]
            if len(lv) >= 2 and not typed:
                got0 = lv[0].children
                if isinstance(got0, list) and not got0:
                    got0.append("sentinel")
                    if list(lv[1].children) or lv[1].get_children() or list(lv[0].children) or lv[0].has_children() or not lv[0].is_leaf():
                        bad.append("extending the empty list returned by leaf.children changed what leaves report")
                    res.count("leaf_list_mutations")
            chk("tree.calc_height", t.calc_height(), max(depth.values(), default=0))
            chk("tree.children", list(t.children), kids["root"])
            chk("tree.get_toplevel_nodes", list(t.get_toplevel_nodes()), kids["root"])
            if not typed:
                chk("tree.first_child", t.first_child(), kids["root"][0] if kids["root"] else None)
                chk("tree.last_child", t.last_child(), kids["root"][-1] if kids["root"] else None)
            chk("tree.count", t.count, len(order))
            chk("len(tree)", len(t), len(order))
            from nutree.typed_tree import ANY_KIND as _ANY

            if typed:
                # tree-level first/last child by kind (every kind present at the top level, one absent, and any kind)
                topk = kids["root"]
                for kd in sorted({c.kind for c in topk}) + ["".join(["no", "ne"])]:
                    of_kind = [c for c in topk if c.kind == kd]
                    chk(f"tree.first_child({kd!r})", t.first_child(kind="".join([kd[:1], kd[1:]])), of_kind[0] if of_kind else None)
                    chk(f"tree.last_child({kd!r})", t.last_child(kind="".join([kd[:1], kd[1:]])), of_kind[-1] if of_kind else None)
                chk("tree.first_child(ANY)", t.first_child(kind=_ANY), topk[0] if topk else None)
                chk("tree.last_child(ANY)", t.last_child(kind=_ANY), topk[-1] if topk else None)

            # --- the same tree emptied again (three ways), then refilled: tree-level answers of an empty / one-node tree
            how = (len(order) + len(case["f"])) % 3
            if how == 0:
                t.clear()
            elif how == 1:
                for c in list(t.children):
                    c.remove()
            else:
                t.filter(lambda nd: False)
            res.count("emptied_trees")
            ch = t.children
            if not isinstance(ch, list) or ch:
                bad.append(f"children of an emptied tree (how={how}): got {ch!r}, expected []")
            chk("emptied tree.get_toplevel_nodes", list(t.get_toplevel_nodes()), [])
            chk("emptied tree.first_child", t.first_child() if not typed else t.first_child(kind=_ANY), None)
            chk("emptied tree.last_child", t.last_child() if not typed else t.last_child(kind=_ANY), None)
            chk("emptied tree.count", (t.count, len(t), t.count_unique, list(t), t.calc_height()), (0, 0, 0, [], 0))
            nn = t.add("again", **({"kind": "kx"} if typed else {}))
            chk("refilled tree.children", list(t.children), [nn])
            chk("refilled tree.first/last", (id(t.first_child() if not typed else t.first_child(kind=_ANY)),
                                             id(t.last_child() if not typed else t.last_child(kind=_ANY)), t.count), (id(nn), id(nn), 1))
            chk("refilled node", (nn.parent, nn.depth(), nn.get_index(), nn.is_top() if hasattr(nn, "is_top") else True, list(nn.children)),
                (None, 1, 0, True, []))
    except CaseTimeout:
        res.inconc("case watchdog fired")
        return
    except Exception:
        note_exc(res, bad, "exception escaped from the library: ")
    if bad:
        res.violation(case, "; ".join(bad[:3]), n_bad=len(bad))


NSHARDS = 16


def shards(tier, seed):
    bound = 7 if tier == "quick" else 10
    out = [{"name": f"enum{i}", "kind": "enum", "i": i, "bound": bound, "budget_s": 120 if tier == "quick" else 3600}
           for i in range(NSHARDS)]
    out += [{"name": f"rand{i}", "kind": "rand", "i": i, "count": 15 if tier == "quick" else 6000,
             "budget_s": 60 if tier == "quick" else 3600} for i in range(NSHARDS)]
    return out


def run_shard(spec, res):
    seed = spec["seed"]
    if spec["kind"] == "enum":
        k = 0
        for n in range(0, spec["bound"] + 1):
            for f in gen.forests(n):
                k += 1
                if k % NSHARDS != spec["i"]:
                    continue
                for lab in LABELINGS:
                    for cls in (["plain", "typed", "ext", "ext_typed"] if n <= 5 else ["plain", "typed"] if n <= 6 else ["plain"]):
                        run_case({"cls": cls, "f": gen.code(f), "lab": lab, "seed": seed}, res)
                        if 1 <= n <= 6:
                            run_case({"cls": cls, "f": gen.code(f), "lab": lab, "seed": seed, "prelude": True}, res)
                if res.expired():
                    res.count("exhaustive_cut")
                    res.inconc("enumeration cut by time budget")
                    return
    else:
        rng = rng_for(seed, "c10-rand", spec["i"])
        for j in range(spec["count"]):
            f = gen.random_forest(rng, rng.randint(8, 30))
            run_case({"cls": rng.choice(["plain", "typed", "ext", "ext_typed"]), "f": gen.code(f), "lab": rng.choice(LABELINGS), "seed": seed,
                      "prelude": rng.random() < 0.5}, res)
            if res.expired():
                break
