"""C14 - the nested list-of-dicts form round-trips and mirrors the tree.

Monitor: mirror (dict structure vs. tree, node by node) + round trip
(from_dict(to_dict_list()) vs. source), also through json.dumps/loads.
"""

from __future__ import annotations

import json

from .. import gen
from ..core import CaseTimeout, case_deadline, rng_for, short_tb, note_exc

PROP = "C14"
LEVEL = "exploration"
RULE = ("case = (forest shape, flavour in {str+clones, str+explicit ids, unicode, objects with inverse mappers and id "
        "callback, emptied tree, duplicate-sibling document}, labeling seed); all forests up to the bound x flavours, "
        "random larger; non-trivial = >= 4 nodes with a clone group or an explicit id")
ASSUMPTIONS = ["data equality: == for str, attribute dict for objects", "Tree.from_dict always builds a plain Tree"]
MECH = ["nutree.node:Node.to_dict", "nutree.tree:Tree.to_dict_list", "nutree.node:Node.from_dict", "nutree.tree:Tree.from_dict"]
MIN_NONTRIVIAL = {"quick": 500, "thorough": 5000}
EXHAUSTIVE = {"quick": True, "thorough": True}
FLAVOURS = ["str", "ids", "unicode", "obj", "objdefault", "emptied", "dupdoc"]


class Obj:
    def __init__(self, name, guid, extra=None):
        self.name = name
        self.guid = guid
        self.extra = extra

    def __repr__(self):
        return f"Obj<{self.name},{self.guid}>"

    def key(self):
        return (type(self).__name__, self.name, self.guid, self.extra)


class FalsyObj(Obj):
    """A legal data object that is falsy (like an empty container)."""

    def __bool__(self):
        return False


class HObj(Obj):
    """Value object: equal and hashable by content, so the default data_id (hash) is stable across a round trip."""

    def __eq__(self, other):
        return isinstance(other, HObj) and self.key() == other.key()

    def __hash__(self):
        return hash(self.key())


class _FwdData:
    """data object with attributes named like a node's: kind, data_id, children, name, meta"""

    def __init__(self, key):
        self.key = key
        self.kind, self.children, self.name, self.meta = "data-kind", ["not", "nodes"], "data-name", {"m": 1}

    def __str__(self):
        return f"FwdData({self.key})"


def calc_id(tree, data):
    return data.guid if isinstance(data, Obj) else hash(data)


def ser(node, data):
    d = node.data
    if isinstance(d, Obj):
        data["name"] = d.name
        data["extra"] = d.extra
        data["guid"] = d.guid
        data["kind"] = "obj"  # an ordinary user key: a plain tree has no kinds
        if isinstance(d, HObj):
            data["hobj"] = True
        if isinstance(d, FalsyObj):
            data["falsy"] = True
    return data


def deser(parent, item):
    if "guid" in item:
        cls = HObj if item.get("hobj") else (FalsyObj if item.get("falsy") else Obj)
        return cls(item["name"], item["guid"], item["extra"])
    return item["data"]


def ser_none(node, data):
    """Mapper style 4: edits the dict in place and returns None (allowed by the callback type)."""
    ser(node, data)
    return None


def ser_newdict(node, data):
    """Mapper style 2: returns a *new* dict instead of editing in place."""
    d = node.data
    out = dict(data)
    if isinstance(d, Obj):
        out.update(name=d.name, extra=d.extra, guid=d.guid)
        if isinstance(d, HObj):
            out["hobj"] = True
        if isinstance(d, FalsyObj):
            out["falsy"] = True
    return out


def ser_redefine(node, data):
    """Mapper style 5: returns a new dict in which the pre-filled `data` entry is replaced by the mapper's own text."""
    d = node.data
    if isinstance(d, Obj):
        out = {"data": "display:" + d.name, "name": d.name, "extra": d.extra, "guid": d.guid}
        if "data_id" in data:
            out["data_id"] = data["data_id"]
        if isinstance(d, HObj):
            out["hobj"] = True
        if isinstance(d, FalsyObj):
            out["falsy"] = True
        return out
    return data


def ser_fresh(node, data):
    """Mapper style 6: returns a dict of its own that has no `data` entry at all (as DictWrapper.serialize_mapper does):
    the inverse mapper rebuilds the object from the other keys, the string form is not needed."""
    d = node.data
    if isinstance(d, Obj):
        out = {"name": d.name, "extra": d.extra, "guid": d.guid}
        if "data_id" in data:
            out["data_id"] = data["data_id"]
        if isinstance(d, HObj):
            out["hobj"] = True
        if isinstance(d, FalsyObj):
            out["falsy"] = True
        return out
    return data


def ser_ownkey(node, data):
    """Mapper style 3: stores the id under its own key only; the inverse mapper restores item['data_id']."""
    d = node.data
    if isinstance(d, Obj):
        data.update(name=d.name, extra=d.extra, guid=d.guid)
        if isinstance(d, HObj):
            data["hobj"] = True
        else:
            data.pop("data_id", None)
        if isinstance(d, FalsyObj):
            data["falsy"] = True
    return data


def deser_ownkey(parent, item):
    if "guid" in item:
        if item.get("hobj"):
            return HObj(item["name"], item["guid"], item["extra"])
        item["data_id"] = item["guid"]
        return (FalsyObj if item.get("falsy") else Obj)(item["name"], item["guid"], item["extra"])
    return item["data"]


def build(case):
    from nutree import Tree

    f = gen.decode(case["f"])
    rng = rng_for(case["seed"], "c14", case["f"], case["flavour"])
    n = gen.size(f)
    fl = case["flavour"]
    par = gen.parents(f)
    if fl == "obj":
        t = Tree("t", calc_data_id=calc_id)
        pool = [(FalsyObj if rng.random() < 0.25 else Obj)(f"nm{i}", rng.choice([f"g{i}", i + 1000]), rng.choice([None, 1, "x"]))
                for i in range(max(1, n // 2 + 1))]
        labs = gen.clone_labeling(rng, f, list(range(len(pool)))) or None
        if labs is None:
            pool = [Obj(f"nm{i}", f"g{i}") for i in range(n)]
            labs = list(range(n))
        nodes = gen.build(t, f, lambda i: pool[labs[i]])
        return t, nodes
    if fl == "objdefault":
        # hashable value objects keep their default id hash(data): no data_id may be emitted for them
        t = Tree("t")
        pool = [HObj(f"nm{i}", f"g{i}", rng.choice([None, 2])) for i in range(max(1, n // 2 + 1))]
        labs = gen.clone_labeling(rng, f, list(range(len(pool))))
        if labs is None:
            pool = [HObj(f"nm{i}", f"g{i}") for i in range(n)]
            labs = list(range(n))
        nodes = gen.build(t, f, lambda i: pool[labs[i]])
        return t, nodes
    t = gen.ext_classes()["XTree"]("t") if case.get("ext") else Tree("t")
    kindf = None
    if case.get("typed") and not case.get("ext"):
        # a typed source: its list-of-dicts form describes the same nodes (data, custom ids); kinds are not part of this form
        from nutree.typed_tree import TypedTree

        t = TypedTree("t")
        kindf = lambda i: "kab"[i % 3]  # noqa: E731
    if fl in ("str", "emptied", "dupdoc"):
        labs = gen.clone_labeling(rng, f, ["a", "b", "c", "d"]) or [f"n{i}" for i in range(n)]
        nodes = gen.build(t, f, lambda i: labs[i], kind=kindf)
    elif fl == "unicode":
        labs = gen.clone_labeling(rng, f, ["ä", "😀", "a b", 'q"uote', "日本"]) or [f"ü{i}" for i in range(n)]
        nodes = gen.build(t, f, lambda i: labs[i], kind=kindf)
    else:  # explicit ids: (label, id) pairs; siblings get distinct ids; equal data under different ids allowed
        labs, ids = [], []
        for i in range(n):
            used = {ids[j] for j in range(i) if par[j] == par[i]}
            for _ in range(60):
                lab = rng.choice(["a", "b", "c"])
                did = rng.choice([None, "X", "Y", 5, 6, lab + "_id", 0, "", "a", "b",  # "a"/"b": an id equal to another node's *data*
                                  2**60 + 7, -(2**55), "1541815603606036480", "007", "-12", 1.5])  # big ints, numeric text, a float: ids keep value *and* type
                eff = hash(lab) if did is None else did
                if eff not in used:
                    break
            else:
                lab, did, eff = f"n{i}", None, hash(f"n{i}")
            labs.append(lab)
            ids.append(eff)
        nodes = gen.build(t, f, lambda i: labs[i], data_id=lambda i: None if ids[i] == hash(labs[i]) else ids[i], kind=kindf)
    return t, nodes


def dkey(d):
    return d.key() if isinstance(d, Obj) else d


def shape(t):
    """(data key, data_id kind, clone-group index, children) - ids of default-hashed data are
    compared as 'is the hash of its own data'."""
    groups = {}

    def rec(lst):
        out = []
        for c in lst:
            did = c.data_id
            try:
                default = did == hash(c.data)
            except TypeError:
                default = False
            g = groups.setdefault(did, len(groups))
            out.append((dkey(c.data), "H" if default else (type(did).__name__, did), g, rec(list(c.children))))
        return out

    return rec(list(t.children))


def mirror(dicts, kids, mapper_used, bad, path="/", ownkey=False, redefine=False, fresh=False):
    if not isinstance(dicts, list) or len(dicts) != len(kids):
        bad.append(f"{path}: {len(dicts) if isinstance(dicts, list) else dicts!r} dicts for {len(kids)} nodes")
        return
    for d, c in zip(dicts, kids):
        if not isinstance(d, dict):
            bad.append(f"{path}: entry is {type(d).__name__}")
            continue
        if fresh and isinstance(c.data, Obj):
            if "data" in d:
                bad.append(f"{path}{c.data}: the mapper returned a dict without 'data', the entry has {d.get('data')!r}")
        elif d.get("data") != str(c.data) and not (redefine and isinstance(c.data, Obj)):
            bad.append(f"{path}: data {d.get('data')!r} != str({c.data!r})")
        default = c.data_id == hash(c.data)
        if default and "data_id" in d:
            bad.append(f"{path}{c.data}: data_id emitted although it is the default")
        if ownkey and isinstance(c.data, Obj) and not isinstance(c.data, HObj):
            if "data_id" in d:
                bad.append(f"{path}{c.data}: mapper removed data_id but it is present")
        elif not default and d.get("data_id", "<missing>") != c.data_id:
            bad.append(f"{path}{c.data}: data_id {d.get('data_id', '<missing>')!r} != {c.data_id!r}")
        ck = list(c.children)
        if ck or "children" in d:
            mirror(d.get("children", []), ck, mapper_used, bad, f"{path}{c.data}/", ownkey, redefine, fresh)
        if mapper_used and isinstance(c.data, Obj) and (d.get("guid") != c.data.guid or d.get("name") != c.data.name):
            bad.append(f"{path}{c.data}: mapper output missing")
        if redefine and isinstance(c.data, Obj) and d.get("data") != "display:" + c.data.name:
            bad.append(f"{path}{c.data}: the entry's 'data' is {d.get('data')!r}, the mapper returned 'display:{c.data.name}'")


def run_case(case, res):
    from nutree import Tree, UniqueConstraintError

    t, nodes = build(case)
    fl = case["flavour"]
    if case.get("prelude") and fl not in ("emptied", "dupdoc"):
        # a history first (inserts at positions, moves, sorts): child order then differs from creation order
        nodes = gen.history_prelude(t, nodes, rng_for(case["seed"], "c14-prelude", case["f"]), False)
        try:
            keys = {}
            prng = rng_for(case["seed"], "c14-sort", case["f"])
            t.sort(key=lambda x: keys.setdefault(id(x), prng.random()))
            nodes = list(t)
        except Exception:
            pass
    n = len(nodes)
    ids = [x.data_id for x in nodes]
    res.case(case, nontrivial=n >= 4 and (len(set(ids)) < n or fl in ("ids", "obj", "objdefault")))
    bad = []

    def attempt(fn):
        try:
            return fn()
        except Exception as e:
            return ("EXC", type(e).__name__, str(e)[:200])

    try:
        with case_deadline(30):
            if fl == "emptied":
                for x in list(t.children):
                    x.remove()
                got = attempt(lambda: t.to_dict_list())
                res.count("emptied")
                if got != []:
                    bad.append(f"to_dict_list() of an emptied tree: {got!r}")
                t2 = Tree()
                if attempt(lambda: t2.to_dict_list()) != []:
                    bad.append("to_dict_list() of a new tree is not []")
                t3 = attempt(lambda: Tree.from_dict([]))
                if isinstance(t3, tuple) or t3.count != 0:
                    bad.append(f"from_dict([]) -> {t3!r}")
            elif fl == "dupdoc":
                if n >= 1:
                    doc = t.to_dict_list()
                    # duplicate the first entry of some child list
                    rng = rng_for(case["seed"], "dup", case["f"])
                    lists = []

                    def coll(lst):
                        lists.append(lst)
                        for d in lst:
                            if "children" in d:
                                coll(d["children"])

                    coll(doc)
                    lst = rng.choice(lists)
                    lst.insert(rng.randrange(len(lst) + 1), json.loads(json.dumps(rng.choice(lst))))
                    r = attempt(lambda: Tree.from_dict(doc))
                    res.count("dupdoc_refusals")
                    if not (isinstance(r, tuple) and r[1] == "UniqueConstraintError"):
                        bad.append(f"from_dict of a document with duplicate siblings: {r!r}")
            else:
                if case["seed"] % 4 == 0 or len(case["f"]) % 3 == 0:
                    # a tree that forwards attribute access to its data objects, whose attributes are named like node
                    # attributes: a node's dict describes the node - string form, custom id, children - nothing of the data's
                    ft = Tree("fwd", forward_attrs=True)
                    fa = ft.add(_FwdData("fa"))
                    fa.add(_FwdData("fb")).add(_FwdData("fc"))
                    ft.add(_FwdData("fd"), data_id="custom")
                    fd = attempt(lambda: ft.to_dict_list())
                    res.count("forwarding_tree_dicts")
                    want = [{"data": "FwdData(fa)", "children": [{"data": "FwdData(fb)", "children": [{"data": "FwdData(fc)"}]}]},
                            {"data": "FwdData(fd)", "data_id": "custom"}]
                    if fd != want:
                        bad.append(f"to_dict_list() of a forward_attrs tree: {fd!r}, expected {want!r}")
                mapper_used = fl in ("obj", "objdefault")
                src = shape(t)
                style = case.get("style", 0) if mapper_used else 0
                ser_f, deser_f = [(ser, deser), (ser_newdict, deser), (ser_ownkey, deser_ownkey), (ser_none, deser), (ser_redefine, deser), (ser_fresh, deser)][style]
                res.count(f"mapper_style:{style}" if mapper_used else "no_mapper")
                seen_nodes = []

                def ser_rec(node, data, _f=ser_f):
                    seen_nodes.append(node)
                    return _f(node, data)

                dl = attempt(lambda: t.to_dict_list(mapper=ser_rec) if mapper_used else t.to_dict_list())
                if mapper_used and not isinstance(dl, tuple):
                    if [id(x) for x in seen_nodes] != [id(x) for x in nodes]:
                        bad.append(f"to_dict_list called the mapper for {len(seen_nodes)} nodes {[str(getattr(x, 'data', x)) for x in seen_nodes][:6]}, "
                                   f"the tree has {len(nodes)} nodes (in pre-order)")
                res.count("to_dict_list")
                if isinstance(dl, tuple):
                    bad.append(f"to_dict_list raised {dl!r}")
                else:
                    mirror(dl, list(t.children), mapper_used, bad, ownkey=style == 2, redefine=style == 4, fresh=style == 5)
                    if shape(t) != src:
                        bad.append("to_dict_list changed the source")
                    # a second call gives an equal, independent structure (no internal state is handed out)
                    dl_b = attempt(lambda: t.to_dict_list(mapper=ser_f) if mapper_used else t.to_dict_list())
                    if dl_b != dl:
                        bad.append("to_dict_list() called twice gives different structures")
                    elif isinstance(dl_b, list) and dl_b:
                        dl_b[0]["data"] = "tampered"
                        dl_b[0].pop("children", None)
                        dl_c = attempt(lambda: t.to_dict_list(mapper=ser_f) if mapper_used else t.to_dict_list())
                        if dl_c != dl:
                            bad.append("editing a structure returned by to_dict_list() changed what the next call returns")
                    frozen = json.dumps(dl, sort_keys=True, default=repr)
                    for variant in ("direct", "json"):
                        doc = dl if variant == "direct" else json.loads(json.dumps(dl))
                        seen_parents = []

                        def deser_rec(parent, item, _f=deser_f):
                            seen_parents.append(parent)
                            return _f(parent, item)

                        t2 = attempt(lambda: Tree.from_dict(json.loads(json.dumps(doc)) if variant == "direct" and style == 2 else doc, mapper=deser_rec) if mapper_used else Tree.from_dict(doc))
                        if case.get("typed") and not mapper_used and not isinstance(t2, tuple):
                            # called through the class of the source tree (a classmethod): same structure
                            t2c = attempt(lambda: type(t).from_dict(json.loads(json.dumps(doc))))
                            res.count("from_dict_via_source_class")
                            if isinstance(t2c, tuple) or shape(t2c) != shape(t2):
                                bad.append(f"{type(t).__name__}.from_dict(...) differs from Tree.from_dict(...): {t2c!r}")
                        if mapper_used and not isinstance(t2, tuple):
                            # the mapper is told the parent node of the node being created (the system root for top nodes)
                            built = list(t2)
                            if len(seen_parents) != len(built):
                                bad.append(f"from_dict called the mapper {len(seen_parents)} times for {len(built)} nodes")
                            else:
                                for nd, par in zip(built, seen_parents):
                                    want = nd.parent if nd.parent is not None else t2.system_root
                                    if par is not want:
                                        bad.append(f"from_dict passed {par!r} as parent to the mapper for a child of {want!r}")
                                        break
                        res.count("round_trips")
                        if isinstance(t2, tuple):
                            bad.append(f"from_dict ({variant}) raised {t2!r}")
                            continue
                        if type(t2) is not Tree:
                            bad.append(f"from_dict returned {type(t2).__name__}")
                        s2 = shape(t2)
                        if s2 != src:
                            bad.append(f"round trip ({variant}) differs: {s2} vs {src}")
                        if variant == "direct" and style != 2 and json.dumps(dl, sort_keys=True, default=repr) != frozen:
                            bad.append("from_dict() modified the structure it was given")
                        if t2.count != t.count or t2.count_unique != t.count_unique:
                            bad.append(f"round trip ({variant}): count {t2.count}/{t2.count_unique} vs {t.count}/{t.count_unique}")
                    # branch form: Node.to_dict / Node.from_dict
                    for x in nodes[:3]:
                        d = attempt(lambda: x.to_dict(mapper=ser_f) if mapper_used else x.to_dict())
                        if isinstance(d, tuple):
                            bad.append(f"to_dict raised {d!r}")
                            continue
                        b = []
                        mirror([d], [x], mapper_used, b, ownkey=style == 2, redefine=style == 4, fresh=style == 5)
                        bad.extend(b)
                        t4 = Tree("t4", calc_data_id=calc_id if fl == "obj" else None)
                        top = t4.add("TOP")
                        r = attempt(lambda: top.from_dict([json.loads(json.dumps(d))], mapper=deser_f if mapper_used else None))
                        if isinstance(r, tuple):
                            bad.append(f"Node.from_dict raised {r!r}")
                        else:
                            def sub(nd):
                                return (dkey(nd.data), [sub(c) for c in nd.children])

                            if [sub(c) for c in top.children] != [sub(x)]:
                                bad.append("Node.from_dict(node.to_dict()) differs from the branch")
                        res.count("branch_round_trips")
    except CaseTimeout:
        res.inconc("case watchdog fired")
        return
    except Exception:
        note_exc(res, bad, "exception escaped from the library: ")
    if bad:
        res.violation(case, "; ".join(bad[:2]), n_bad=len(bad))


NSHARDS = 16


def shards(tier, seed):
    bound = 6 if tier == "quick" else 9
    out = [{"name": f"enum{i}", "kind": "enum", "i": i, "bound": bound, "budget_s": 150 if tier == "quick" else 3600}
           for i in range(NSHARDS)]
    out += [{"name": f"rand{i}", "kind": "rand", "i": i, "count": 40 if tier == "quick" else 20000,
             "budget_s": 90 if tier == "quick" else 3600} for i in range(NSHARDS)]
    return out


def run_shard(spec, res):
    seed = spec["seed"]
    if spec["kind"] == "enum":
        k = 0
        for n in range(0, spec["bound"] + 1):
            for f in gen.forests(n):
                k += 1
                if k % NSHARDS != spec["i"]:
                    continue
                for fl in FLAVOURS:
                    for style in ((0, 1, 2, 3, 4, 5) if fl in ("obj", "objdefault") else (0,)):
                        run_case({"f": gen.code(f), "flavour": fl, "seed": seed, "style": style}, res)
                        if n >= 3 and (k + style) % 2 == 0:
                            run_case({"f": gen.code(f), "flavour": fl, "seed": seed, "style": style, "prelude": True,
                                      "ext": fl in ("str", "unicode", "ids") and k % 4 == 0}, res)
                    if fl in ("str", "unicode", "ids") and n >= 2 and k % 2:
                        run_case({"f": gen.code(f), "flavour": fl, "seed": seed, "style": 0, "ext": True}, res)
                        run_case({"f": gen.code(f), "flavour": fl, "seed": seed, "style": 0, "typed": True}, res)
                if res.expired():
                    res.count("exhaustive_cut")
                    res.inconc("enumeration cut by time budget")
                    return
    else:
        rng = rng_for(seed, "c14-rand", spec["i"])
        for j in range(spec["count"]):
            f = gen.random_forest(rng, rng.randint(6, 30))
            run_case({"f": gen.code(f), "flavour": rng.choice(FLAVOURS), "seed": rng.randrange(10**6), "style": rng.randrange(6),
                      "prelude": rng.random() < 0.5, "ext": rng.random() < 0.3}, res)
            if res.expired():
                break
