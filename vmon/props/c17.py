"""C17 - DOT, Mermaid and RDF exports describe exactly the tree's edges.

Monitor: parse exports.  The text (DOT, Mermaid) is parsed back / the RDF triples are
enumerated and compared with the edge multiset (set for RDF) computed from children lists.
"""

from __future__ import annotations

import io
import re
from collections import Counter

from .. import gen
from ..core import CaseTimeout, case_deadline, rng_for, short_tb, note_exc

PROP = "C17"
LEVEL = "exploration"
RULE = ("case = (tree class, forest shape, labeling in {str with clones, int incl. 0 with clones, explicit falsy/str ids}, "
        "labeling seed); per case every start (tree, every node) x unique_nodes x add_root/add_self x {DOT, Mermaid, RDF} "
        "is exported and parsed; all forests up to the bound, random larger; non-trivial = >= 4 nodes with a clone group")
ASSUMPTIONS = [
    "DOT merges repeated node statements of one id, so node statements are compared as a set",
    "the label of a non-root start node in DOT is not checked (it is stated without label)",
    "RDF graphs are sets of triples",
]
MECH = ["nutree.dot:node_to_dot", "nutree.dot:tree_to_dotfile", "nutree.mermaid:_node_to_mermaid_flowchart_iter",
        "nutree.rdf:_add_child_node", "nutree.rdf:_add_child_nodes", "nutree.rdf:node_to_rdf", "nutree.rdf:tree_to_rdf",
        "nutree.typed_tree:TypedNode.to_dot"]
MIN_NONTRIVIAL = {"quick": 300, "thorough": 3000}
EXHAUSTIVE = {"quick": True, "thorough": True}
FLAVOURS = ["str", "int", "ids"]
KINDS = ["k1", "k2", "enth\u00e4lt", "is {to_id} of", "{}", "50%s", "child"]  # a non-ASCII kind; kinds that look like template fields


def build(case):
    from nutree import Tree
    from nutree.typed_tree import TypedTree

    f = gen.decode(case["f"])
    rng = rng_for(case["seed"], "c17", case["f"], case["flavour"], case["cls"])
    n = gen.size(f)
    typed = case["cls"] == "typed"
    if case.get("ext"):
        X = gen.ext_classes()  # node classes of the user (subclasses of Node / TypedNode with a `name` of their own)
        t = (X["XTypedTree"] if typed else X["XTree"])("TNAME")
    else:
        t = (TypedTree if typed else Tree)("TNAME")
    kind = (lambda i: KINDS[rng.randrange(len(KINDS))]) if typed else None
    kinds = [KINDS[rng.randrange(len(KINDS))] for _ in range(n)]
    kind = (lambda i: kinds[i]) if typed else None
    fl = case["flavour"]
    # every third tree has application-supplied node ids on its odd nodes (the per-node graph keys are node ids)
    nid = (lambda i: 700 + i if i % 2 else None) if case["seed"] % 3 == 1 else None
    if fl == "str":
        labs = gen.clone_labeling(rng, f, ["a", "b", "Z\u00fcrich", "km\u00b2", ""]) or [f"n{i}" for i in range(n)]
        nodes = gen.build(t, f, lambda i: labs[i], kind=kind, node_id=nid)
    elif fl == "int":
        labs = gen.clone_labeling(rng, f, [0, 1, 2, 3]) or list(range(n))
        nodes = gen.build(t, f, lambda i: labs[i], kind=kind, node_id=nid)
    else:
        # explicit ids, some falsy ("" is not usable as DOT key; 0 and False-like ints are)
        labs = gen.clone_labeling(rng, f, ["p", "q", "r", "s"]) or [f"n{i}" for i in range(n)]
        idmap = {"p": 0, "q": "Q", "r": 7, "s": "s_id"}
        nodes = gen.build(t, f, lambda i: labs[i], kind=kind, data_id=lambda i: idmap.get(labs[i]))
    return t, nodes


class OutputFormatError(Exception):
    """the exporter's output is not a graph description (decided on the text alone - a finding, not a harness error)"""


def parse_dot(lines):
    """Tolerant reader of the emitted DOT subset: `key [attrs]` and `a -> b [attrs]` statements
    (any indentation, optional quotes around ids, optional trailing semicolon)."""
    nodes = {}
    edges = Counter()
    ID = r'"?([^"\s\[\];]+)"?'
    for ln in lines:
        body = ln.strip().rstrip(";").strip()
        if not body or body.startswith(("#", "//", "digraph", "graph ", "node ", "edge ", "}", "{")):
            continue
        m = re.fullmatch(ID + r"\s*->\s*" + ID + r"\s*(?:\[(.*)\])?", body)
        if m:
            lab = None
            if m.group(3):
                mm = re.search(r'label="([^"]*)"', m.group(3))
                lab = mm.group(1) if mm else None
            edges[(m.group(1), m.group(2), lab)] += 1
            continue
        m = re.fullmatch(ID + r"\s*(?:\[(.*)\])?", body)
        if m:
            lab = None
            if m.group(2):
                mm = re.search(r'label="([^"]*)"', m.group(2))
                lab = mm.group(1) if mm else None
            nodes.setdefault(m.group(1), set()).add(lab)
            continue
        raise OutputFormatError(f"DOT output contains a line that is neither a node, an edge nor an attribute statement: {ln!r}")
    return nodes, edges


def parse_mermaid(text):
    names = {}
    edges = []
    root = None
    for ln in text.split("\n"):
        m = re.fullmatch(r'(\d+)\("(.*)"\)', ln)
        if m:
            if m.group(1) in names:
                raise OutputFormatError(f"Mermaid output defines graph node {m.group(1)} twice (as {names[m.group(1)]!r} and as {m.group(2)!r}): two tree nodes share one graph node")
            names[m.group(1)] = m.group(2)
            continue
        m = re.fullmatch(r'(\d+)\{\{"(.*)"\}\}', ln)
        if m:
            names[m.group(1)] = m.group(2)
            root = m.group(1)
            continue
        m = re.fullmatch(r"(\d+) --> (\d+)", ln)
        if m:
            edges.append((m.group(1), m.group(2), None))
            continue
        m = re.fullmatch(r'(\d+)-- "(.*)" -->(\d+)', ln)
        if m:
            edges.append((m.group(1), m.group(3), m.group(2)))
    return names, edges, root


def run_case(case, res):
    from nutree.rdf import NUTREE_NS, Literal

    t, nodes = build(case)
    typed = case["cls"] == "typed"
    n = len(nodes)
    ids = [x.data_id for x in nodes]
    res.case(case, nontrivial=n >= 4 and len(set(ids)) < n)
    bad = []

    def desc(x):
        out = []
        for c in x.children:
            out.append(c)
            out += desc(c)
        return out

    def attempt(fn):
        try:
            return fn()
        except Exception as e:
            return ("EXC", type(e).__name__, str(e)[:200])

    try:
        with case_deadline(60):
            starts = [(t.system_root, True)] + [(x, False) for x in nodes]
            for start, isroot in starts:
                D = desc(start) if not isroot else desc(t.system_root)
                for unique in (True, False):
                    key = (lambda x: x.data_id) if unique else (lambda x: x.node_id)
                    for add_self in (True, False):
                        exp_nodes = {str(key(x)) for x in D}
                        if add_self:
                            exp_nodes.add(str(key(start)))
                        exp_edges = Counter()
                        for x in D:
                            par = x._parent if x.parent is None else x.parent
                            par = start if (x.parent is None and isroot) else x.parent
                            if par is start and not add_self:
                                continue
                            exp_edges[(str(key(par)), str(key(x)), x.kind if typed else None)] += 1
                        # ---------------- DOT ----------------
                        if isroot:
                            lines = attempt(lambda: list(t.to_dot(add_root=add_self, unique_nodes=unique)))
                        else:
                            lines = attempt(lambda: list(start.to_dot(add_self=add_self, unique_nodes=unique)))
                        res.count("dot_exports")
                        if isinstance(lines, tuple):
                            bad.append(f"to_dot raised {lines!r}")
                        else:
                            if unique and add_self:
                                again = attempt(lambda: list(t.to_dot(add_root=add_self, unique_nodes=unique)) if isroot
                                                else list(start.to_dot(add_self=add_self, unique_nodes=unique)))
                                if again != lines:
                                    bad.append("to_dot() called twice gives different output")
                            gn, ge = parse_dot(lines)
                            res.observe("dot_graphs", [sorted(gn), sorted(map(str, ge.items()))])
                            if set(gn) != exp_nodes:
                                bad.append(f"DOT nodes (start={'root' if isroot else nodes.index(start) if False else '#'}, unique={unique}, add_self={add_self}): got {sorted(gn)}, expected {sorted(exp_nodes)}")
                            if ge != exp_edges:
                                bad.append(f"DOT edges (unique={unique}, add_self={add_self}, root={isroot}): got {dict(ge)}, expected {dict(exp_edges)}")
                            for x in D:
                                labs = gn.get(str(key(x)), set())
                                if gen.expected_name(x) not in labs:
                                    bad.append(f"DOT node {key(x)} lacks label {x.data!r}: {labs}")
                            if isroot and add_self and "TNAME" not in gn.get(str(key(start)), set()):
                                bad.append("DOT root node lacks the tree name as label")
                        # ---------------- Mermaid -------------
                        fp = io.StringIO()
                        if isroot:
                            r = attempt(lambda: t.to_mermaid_flowchart(fp, add_root=add_self, unique_nodes=unique))
                        else:
                            r = attempt(lambda: start.to_mermaid_flowchart(fp, add_self=add_self, unique_nodes=unique))
                        res.count("mermaid_exports")
                        if isinstance(r, tuple):
                            bad.append(f"to_mermaid_flowchart raised {r!r}")
                        else:
                            names, medges, mroot = parse_mermaid(fp.getvalue())
                            if len(names) != len(exp_nodes):
                                bad.append(f"Mermaid defines {len(names)} nodes, expected {len(exp_nodes)} (unique={unique}, add_self={add_self}, root={isroot})")
                            name_of_key = {str(key(x)): gen.expected_name(x) for x in D}
                            name_of_key[str(key(start))] = "TNAME" if isroot else gen.expected_name(start)
                            exp_m = Counter((name_of_key[a], name_of_key[b], k) for (a, b, k), c in exp_edges.items() for _ in range(c))
                            got_m = Counter((names.get(a), names.get(b), k) for a, b, k in medges)
                            if got_m != exp_m:
                                bad.append(f"Mermaid edges (unique={unique}, add_self={add_self}, root={isroot}): got {dict(got_m)}, expected {dict(exp_m)}")
                            if not unique:
                                # one graph node per tree node: rebuild the shape from the graph
                                indeg = Counter(b for a, b, k in medges)
                                if any(v > 1 for v in indeg.values()):
                                    bad.append("Mermaid (unique_nodes=False): a graph node has two parents")
                                kidsof = {}
                                for a, b, k in medges:
                                    kidsof.setdefault(a, []).append(b)

                                def gshape(i):
                                    return (names[i], [gshape(j) for j in kidsof.get(i, [])])

                                def tshape(x):
                                    return (gen.expected_name(x), [tshape(c) for c in x.children])

                                if add_self:
                                    rootidx = [i for i in names if indeg[i] == 0]
                                    if len(rootidx) != 1:
                                        bad.append(f"Mermaid (unique_nodes=False, add_self): {len(rootidx)} graph roots")
                                    else:
                                        g = gshape(rootidx[0])
                                        e = ("TNAME" if isroot else gen.expected_name(start), [tshape(c) for c in start.children])
                                        if g != e:
                                            bad.append(f"Mermaid shape differs: {g} vs {e}")
                                            res.count("mermaid_shape_mismatch")
                                        res.count("mermaid_shapes_rebuilt")
                    # ---------------- RDF ---------------------------
                if isroot:
                    # the system root as start node with add_self=False: the root and the edges leaving it are omitted, nothing else
                    g0 = attempt(lambda: t.system_root.to_rdf_graph(add_self=False))
                    res.count("rdf_exports_from_system_root_without_self")
                    if isinstance(g0, tuple):
                        bad.append(f"system_root.to_rdf_graph(add_self=False) raised {g0!r}")
                    else:
                        got0 = {(s, o) for s, p, o in g0.triples((None, NUTREE_NS.has_child, None))}
                        exp0 = {(Literal(x.parent.data_id), Literal(x.data_id)) for x in D if x.parent is not None}
                        if got0 != exp0:
                            bad.append(f"RDF has_child from the system root without itself: got {sorted(map(str, got0))}, expected {sorted(map(str, exp0))}")
                        gotn0 = {(s, o) for s, p, o in g0.triples((None, NUTREE_NS.name, None))}
                        expn0 = {(Literal(x.data_id), Literal(gen.expected_name(x))) for x in D}
                        if gotn0 != expn0:
                            bad.append(f"RDF name triples from the system root without itself: got {sorted(map(str, gotn0))}, expected {sorted(map(str, expn0))}")
                for add_self in ((True,) if isroot else (True, False)):
                    if isroot:
                        g = attempt(lambda: t.to_rdf_graph())
                        rootref = NUTREE_NS.system_root
                    else:
                        g = attempt(lambda: start.to_rdf_graph(add_self=add_self))
                        rootref = None
                    res.count("rdf_exports")
                    if isinstance(g, tuple):
                        bad.append(f"to_rdf_graph raised {g!r}")
                        continue
                    got = {(s, o) for s, p, o in g.triples((None, NUTREE_NS.has_child, None))}
                    exp = set()
                    for x in D:
                        if x.parent is None and isroot:
                            exp.add((rootref, Literal(x.data_id)))
                        else:
                            par = x.parent
                            if par is start and not add_self:
                                continue
                            exp.add((Literal(par.data_id), Literal(x.data_id)))
                    if got != exp:
                        bad.append(f"RDF has_child (root={isroot}, add_self={add_self}): got {sorted(map(str, got))}, expected {sorted(map(str, exp))}")
                    gotn = {(s, o) for s, p, o in g.triples((None, NUTREE_NS.name, None))}
                    expn = {(Literal(x.data_id), Literal(gen.expected_name(x))) for x in D}
                    if isroot:
                        expn.add((rootref, Literal("TNAME")))
                    elif add_self:
                        expn.add((Literal(start.data_id), Literal(gen.expected_name(start))))
                    if gotn != expn:
                        bad.append(f"RDF name triples (root={isroot}, add_self={add_self}): got {sorted(map(str, gotn))}, expected {sorted(map(str, expn))}")
                    if not isroot:
                        # a node mapper may veto the standard attributes of a node (return False): the edges are not its business
                        vetoed = {id(x) for i, x in enumerate(D + [start]) if i % 2 == 0}
                        g2 = attempt(lambda: start.to_rdf_graph(add_self=add_self, node_mapper=lambda graph, gn, node: False if id(node) in vetoed else None))
                        res.count("rdf_exports_with_vetoing_mapper")
                        if isinstance(g2, tuple):
                            bad.append(f"to_rdf_graph(node_mapper returning False for some nodes) raised {g2!r}")
                        else:
                            got2 = {(s, o) for s, p, o in g2.triples((None, NUTREE_NS.has_child, None))}
                            if got2 != exp:
                                bad.append(f"RDF has_child with a node mapper that returns False for some nodes: got {sorted(map(str, got2))}, expected {sorted(map(str, exp))}")
                    if typed:
                        gotk = {(s, o) for s, p, o in g.triples((None, NUTREE_NS.kind, None))}
                        expk = {(Literal(x.data_id), Literal(x.kind)) for x in D}
                        if not isroot and add_self:
                            expk.add((Literal(start.data_id), Literal(start.kind)))
                        if gotk != expk:
                            bad.append(f"RDF kind triples: got {sorted(map(str, gotk))}, expected {sorted(map(str, expk))}")
            # Mermaid layout options (markdown fence, title, direction, headers) and string templates must not change
            # the described graph; path targets give the same text as stream targets
            import os as _os
            import shutil as _sh
            import tempfile as _tf

            # templates / callbacks that spell out the default rendering
            etempl = '{from_id}-- "{to_node.kind}" -->{to_id}' if typed else "{from_id} --> {to_id}"

            def efunc(from_id, from_node, to_id, to_node):
                return etempl.format(from_id=from_id, from_node=from_node, to_id=to_id, to_node=to_node)

            fp0 = io.StringIO()
            t.to_mermaid_flowchart(fp0)
            n0, e0, r0 = parse_mermaid(fp0.getvalue())
            for kwm in ({"as_markdown": False}, {"title": False}, {"title": "My title", "direction": "LR"}, {"headers": ["%% a header"]},
                        {"node_mapper": "{node.name}"}, {"unique_nodes": False, "as_markdown": False, "title": "x"},
                        {"edge_mapper": etempl}, {"node_mapper": "{node.name}", "edge_mapper": etempl},
                        {"node_mapper": lambda node: node.name, "edge_mapper": etempl},
                        {"node_mapper": "{node.name}", "edge_mapper": efunc}):
                fpv = io.StringIO()
                r = attempt(lambda: t.to_mermaid_flowchart(fpv, **kwm))
                res.count("mermaid_option_variants")
                if isinstance(r, tuple):
                    bad.append(f"to_mermaid_flowchart({kwm}) raised {r!r}")
                    continue
                nv, ev, rv = parse_mermaid(fpv.getvalue())
                if "unique_nodes" in kwm:
                    fpu = io.StringIO()
                    t.to_mermaid_flowchart(fpu, unique_nodes=False)
                    nb, eb, rb = parse_mermaid(fpu.getvalue())
                else:
                    nb, eb = n0, e0
                if nv != nb or ev != eb:
                    bad.append(f"to_mermaid_flowchart({kwm}) describes another graph than the default call")
                if kwm.get("as_markdown") is False and "```" in fpv.getvalue():
                    bad.append("as_markdown=False still emits a code fence")
            # DOT default attributes (graph / node / edge) are layout only: the described graph stays the same
            base_dot = attempt(lambda: parse_dot(list(t.to_dot())))
            import copy as _copy

            for kwd in ({"graph_attrs": {"rankdir": "LR"}}, {"node_attrs": {"shape": "box"}}, {"edge_attrs": {"color": "red"}},
                        {"graph_attrs": {"rankdir": "LR", "label": "G"}, "node_attrs": {"shape": "box"}, "edge_attrs": {"color": "red"}}):
                kw_before = _copy.deepcopy(kwd)
                lines1 = attempt(lambda: list(t.to_dot(**kwd)))
                gd = attempt(lambda: parse_dot(lines1))
                res.count("dot_attr_variants")
                if isinstance(gd, tuple) and gd and gd[0] == "EXC":
                    bad.append(f"to_dot({kwd}) raised {gd!r}")
                elif gd != base_dot:
                    bad.append(f"to_dot({kwd}) describes another graph than the default call")
                # the attribute dicts belong to the caller: unchanged by the export, and a second export with the very same dict
                # objects - of this tree and of another one - gives the same text as with fresh dicts
                if kwd != kw_before:
                    bad.append(f"to_dot() wrote into the caller's attribute dicts: {kwd!r} (were {kw_before!r})")
                from nutree import Tree as _PlainTree

                pt = _PlainTree("P")
                pt.add("pa").add("pb")
                again_other = attempt(lambda: list(pt.to_dot(**kwd)))
                fresh_other = attempt(lambda: list(pt.to_dot(**_copy.deepcopy(kw_before))))
                if again_other != fresh_other:
                    bad.append(f"an export of another tree with attribute dicts that were used before differs from one with fresh dicts ({kw_before!r})")
            # DOT mappers that only *add* an attribute - editing the dict in place, or handing back a new dict that still holds
            # everything they were given: the described graph (labels, kinds on the edges) stays the same
            for kwd in ({"edge_mapper": lambda n, d: {**d, "color": "red"}}, {"edge_mapper": lambda n, d: d.update(color="red")},
                        {"node_mapper": lambda n, d: {**d, "color": "red"}}, {"node_mapper": lambda n, d: d.update(color="red")},
                        {"node_mapper": lambda n, d: {**d, "shape": "box"}, "edge_mapper": lambda n, d: {**d, "style": "dashed"}}):
                gd = attempt(lambda: parse_dot(list(t.to_dot(**kwd))))
                res.count("dot_adding_mappers")
                if gd != base_dot:
                    bad.append(f"to_dot({'+'.join(sorted(kwd))} that only adds an attribute) describes another graph than the default call: "
                               f"{gd!r} vs {base_dot!r}"[:900])
            tmpd = _tf.mkdtemp(prefix="vmon-c17-")
            try:
                pth = _os.path.join(tmpd, "g.md")
                # the target files exist already and are longer than what is written now (an earlier, larger export)
                for stale in (pth, _os.path.join(tmpd, "g.gv")):
                    with open(stale, "w", encoding="utf8") as _fp:
                        _fp.write("99998 --> 99999\n  stale -> line [label=\"old\"]\n" * 400)
                t.to_mermaid_flowchart(pth)
                if open(pth, encoding=None).read() != fp0.getvalue():  # (the library opens this target with the default encoding, too)
                    bad.append("to_mermaid_flowchart(path) differs from the stream output")
                from pathlib import Path as _P

                dp = _P(tmpd) / "g.gv"
                t.to_dotfile(dp)
                if dp.read_text() != "".join(l + "\n" for l in t.to_dot()):
                    bad.append("to_dotfile(Path) differs from to_dot()")
                t.to_dotfile(str(dp), unique_nodes=False, add_root=False)
                if dp.read_text() != "".join(l + "\n" for l in t.to_dot(unique_nodes=False, add_root=False)):
                    bad.append("to_dotfile(str path, options) differs from to_dot(options)")
                res.count("file_targets")
            finally:
                _sh.rmtree(tmpd, ignore_errors=True)
            # to_dotfile(stream) == to_dot lines
            fp = io.StringIO()
            r = attempt(lambda: t.to_dotfile(fp))
            if isinstance(r, tuple) or fp.getvalue() != "".join(l + "\n" for l in t.to_dot()):
                bad.append(f"to_dotfile(stream) differs from to_dot(): {r!r}")
    except OutputFormatError as e:
        bad.append(str(e))
    except CaseTimeout:
        res.inconc("case watchdog fired")
        return
    except Exception:
        note_exc(res, bad, "exception escaped from the library: ")
    if bad:
        res.violation(case, "; ".join(bad[:2]), n_bad=len(bad))


NSHARDS = 16


def shards(tier, seed):
    bound = 6 if tier == "quick" else 8
    out = [{"name": f"enum{i}", "kind": "enum", "i": i, "bound": bound, "budget_s": 150 if tier == "quick" else 5400}
           for i in range(NSHARDS)]
    out += [{"name": f"rand{i}", "kind": "rand", "i": i, "count": 6 if tier == "quick" else 2000,
             "budget_s": 90 if tier == "quick" else 3600} for i in range(NSHARDS)]
    return out


def run_shard(spec, res):
    seed = spec["seed"]
    if spec["kind"] == "enum":
        k = 0
        for n in range(0, spec["bound"] + 1):
            for f in gen.forests(n):
                k += 1
                if k % NSHARDS != spec["i"]:
                    continue
                for cls in ("plain", "typed"):
                    for fl in FLAVOURS:
                        run_case({"cls": cls, "f": gen.code(f), "flavour": fl, "seed": seed}, res)
                        if n >= 2 and k % 3 == 0:
                            run_case({"cls": cls, "f": gen.code(f), "flavour": fl, "seed": seed, "ext": True}, res)
                if res.expired():
                    res.count("exhaustive_cut")
                    res.inconc("enumeration cut by time budget")
                    return
    else:
        rng = rng_for(seed, "c17-rand", spec["i"])
        for j in range(spec["count"]):
            f = gen.random_forest(rng, rng.randint(6, 20))
            run_case({"cls": rng.choice(["plain", "typed"]), "f": gen.code(f), "flavour": rng.choice(FLAVOURS),
                      "seed": rng.randrange(10**6), "ext": rng.random() < 0.3}, res)
            if res.expired():
                break
