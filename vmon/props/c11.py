"""C11 - diff() marks exactly the one-sided children and projects back to both inputs.

Monitor: projection laws evaluated on the result of the real diff() for generated
pairs (T0, T1).  Nodes are identified by their label path.
"""

from __future__ import annotations

from ..core import CaseTimeout, case_deadline, rng_for, short_tb

PROP = "C11"
LEVEL = "exploration"
RULE = ("case = (pair seed, mode in {identical copy, copy + random edit history of length 0..10, independent trees}); each "
        "pair is diffed with ordered x reduce (4 calls) and all laws are evaluated; labels from an 8-letter alphabet so "
        "that clones and moves occur; non-trivial = both trees >= 4 nodes and the unreduced result carries >= 1 mark; "
        "distinct by the pair's printed shapes")
ASSUMPTIONS = [
    "nodes are identified by label path (siblings have distinct labels)",
    "marks below an added or removed branch beyond 'every marked node is one-sided' are not constrained",
    "which of several added occurrences is reclassified MOVED_HERE is not constrained",
]
MECH = ["nutree.diff:diff_tree", "nutree.diff:_copy_children", "nutree.diff:_find_child", "nutree.tree:Tree.diff"]
MIN_NONTRIVIAL = {"quick": 1500, "thorough": 40000}
ALPH = list("abcdefgh")
# labels of other types: numbers whose str() equals a text label, and value objects with a guarded __eq__
ALPH_MIXED = ["a", "b", "c", "1", 1, "2.5", 2.5, (1,), "(1,)"]


class Label:
    """Value object with the usual hand-written comparison (False, not NotImplemented, for foreign operands)."""

    def __init__(self, key):
        self.key = key

    def __eq__(self, other):
        if not isinstance(other, Label):
            return False
        return self.key == other.key

    def __hash__(self):
        return hash(("label", self.key))

    def __repr__(self):
        return f"L{self.key}"

    __str__ = __repr__


ALPH_OBJ = [Label(c) for c in "abcdefg"]
MODE = {"alph": ALPH, "sub": False}


def rand_tree(rng, name, n):
    from nutree import Tree

    ALPH = MODE["alph"]
    if MODE["sub"]:
        class KeyedTree(Tree):
            """A user subclass with its own id scheme (a function of the data)."""

            def calc_data_id(self, data):
                return "k:" + repr(data)

        t = KeyedTree(name)
    else:
        t = Tree(name)
    nodes = [t._root]
    for _ in range(n):
        p = rng.choice(nodes)
        lab = rng.choice(ALPH)
        if any(c.data == lab for c in p.children):
            continue
        # `nids`: both input trees number their nodes 1, 2, 3, ... themselves (as two from_dict() results of related specs do)
        nodes.append(p.add(lab, node_id=len(nodes)) if MODE.get("nids") else p.add(lab))
    return t


def edit(rng, t, k):
    ALPH = MODE["alph"]
    for _ in range(k):
        nodes = list(t)
        op = rng.choice(["add", "add", "remove", "move", "reorder", "rename"])
        if op == "add":
            p = rng.choice(nodes + [t._root])
            lab = rng.choice(ALPH)
            if not any(c.data == lab for c in p.children):
                p.add(lab, before=rng.choice([None, True]))
        elif op == "remove" and nodes:
            rng.choice(nodes).remove()
        elif op == "move" and len(nodes) > 1:
            n = rng.choice(nodes)
            tgt = rng.choice(nodes + [t._root])
            if tgt is n or (tgt is not t._root and tgt.is_descendant_of(n)) or tgt is n._parent:
                continue
            if any(c.data == n.data for c in tgt.children):
                continue
            n.move_to(tgt)
        elif op == "reorder" and nodes:
            p = rng.choice(nodes + [t._root])
            if len(p.children) > 1:
                keys = {id(c): rng.random() for c in p.children}
                p.sort_children(key=lambda nd: keys[id(nd)])
        elif op == "rename" and nodes:
            n = rng.choice(nodes)
            if n.is_clone():
                continue
            lab = rng.choice(ALPH)
            if any(c.data == lab for c in n._parent.children):
                continue
            n.set_data(lab)


def paths(t):
    out = {}

    def rec(n, path):
        out[path] = [c.data for c in n.children]
        for c in n.children:
            rec(c, path + (c.data,))

    rec(t._root, ())
    return out


def snap(t):
    """What a caller can observe of an input tree: structure, data, ids, meta - and what its lookups answer: the counters
    and, for labels of either tree, the hits of the data index (read through the public queries only)."""
    def rec(n):
        return [(id(c), id(c.data), c.data, c.data_id, dict(c.meta) if c.meta else None, rec(c)) for c in n.children]

    probes = []
    for x in MODE.get("probe_labels", ()):
        try:
            probes.append((len(t.find_all(x)), x in t))
        except Exception as e:  # noqa: BLE001
            probes.append(type(e).__name__)
    return rec(t._root), t.count, t.count_unique, len(t), probes


def make_pair(case):
    rng = rng_for(case["seed"], "c11-pair")
    MODE["alph"] = {0: ALPH, 1: ALPH, 2: ALPH_MIXED, 3: ALPH_OBJ}[case["seed"] % 4]
    MODE["sub"] = case["seed"] % 5 == 0
    MODE["nids"] = case["seed"] % 7 == 0 and case["mode"] != "same"
    t0 = rand_tree(rng, "T0", rng.randint(0, 14))
    mode = case["mode"]
    if mode == "same":
        t1 = t0.copy(name="T1")
    elif mode == "self":
        t1 = t0  # the very same tree object on both sides
    elif mode == "edit":
        t1 = t0.copy(name="T1")
        edit(rng, t1, rng.randint(0, 10))
    elif mode == "wide":
        # very wide fan-out (positions beyond 256): one parent with some 300 children on both sides, the second side with
        # none, one or a few children moved, removed or added
        from nutree import Tree

        t0 = Tree("T0")
        top = t0.add("hub") if rng.random() < 0.5 else t0
        for i in range(rng.randint(258, 320)):
            top.add(f"w{i}")
        t1 = t0.copy(name="T1")
        hub1 = t1.find_first("hub") or t1
        for _ in range(rng.choice([0, 0, 1, 2])):
            kids = list(hub1.children)
            r = rng.random()
            if r < 0.4:
                a_, b_ = rng.sample(kids[250:], 2)
                a_.move_to(hub1, before=b_)
            elif r < 0.7:
                rng.choice(kids[200:]).remove()
            else:
                hub1.add(f"late{rng.randrange(10**6)}", before=rng.choice([None, kids[-1], kids[-3]]))
    else:
        t1 = rand_tree(rng, "T1", rng.randint(0, 14))
    if case["seed"] % 3 == 0:
        # input nodes that already carry metadata of their own (the marks of the result must not end up in it)
        for tt in (t0, t1):
            for nd in tt:
                if rng.random() < 0.5:
                    nd.set_meta("own", nd.data)
    return t0, t1


def check(t0, t1, ordered, reduce, res):
    from nutree.diff import DiffClassification as DC

    P0, P1 = paths(t0), paths(t1)
    errs = []
    MODE["probe_labels"] = list(dict.fromkeys([n.data for n in t0] + [n.data for n in t1]))[:12]
    s0, s1 = snap(t0), snap(t1)
    t2 = t0.diff(t1, ordered=ordered, reduce=reduce)
    res.count("diff_calls")
    res.observe("diff_results", [[n.data, repr(n.get_meta("dc")), bool(n.get_meta("dc_renumbered")), n.depth()] for n in t2])
    if snap(t0) != s0 or snap(t1) != s1:
        errs.append("an input tree was modified")
    if t2 is t0 or t2 is t1:
        errs.append("diff returned an input tree")
    marks = 0

    def proj(t, drop):
        out = {}

        def rec(n, path):
            kids = [c for c in n.children if c.get_meta("dc") not in drop]
            out[path] = [c.data for c in kids]
            for c in kids:
                rec(c, path + (c.data,))

        rec(t._root, ())
        return out

    # every node of the result stands for a node of T1 (or, if it exists only there, of T0) and carries that node's data_id
    ids0 = {tuple(p.data for p in n.get_parent_list(add_self=True)): n.data_id for n in t0}
    ids1 = {tuple(p.data for p in n.get_parent_list(add_self=True)): n.data_id for n in t1}
    for n in t2:
        pth = tuple(p.data for p in n.get_parent_list(add_self=True))
        want = ids1.get(pth, ids0.get(pth))
        if want is not None and n.data_id != want:
            errs.append(f"result node {pth} has data_id {n.data_id!r}, the input node has {want!r}")
            break
    if P0 == P1:
        for n in t2:
            if n.get_meta("dc") is not None or n.get_meta("dc_renumbered"):
                errs.append(f"identical inputs but node {n.data!r} is marked {n.meta}")
        if reduce and t2.count:
            errs.append(f"identical inputs, reduce=True, but {t2.count} nodes remain")
    if not reduce:
        q1 = proj(t2, (DC.REMOVED, DC.MOVED_TO))
        if {k: sorted(v, key=repr) for k, v in q1.items()} != {k: sorted(v, key=repr) for k, v in P1.items()} or any(len(v) != len(set(v)) for v in q1.values()):
            errs.append(f"T1 projection differs: {q1} vs {P1}")
        q0 = proj(t2, (DC.ADDED, DC.MOVED_HERE))
        for path, kids in P0.items():
            if path in P1 and q0.get(path) != kids:
                errs.append(f"T0 projection at {path}: {q0.get(path)} vs {kids}")

        def rec(n, path, both):
            nonlocal marks
            renum = False
            for c in n.children:
                dc = c.get_meta("dc")
                if dc is not None:
                    marks += 1
                in0 = path in P0 and c.data in P0[path]
                in1 = path in P1 and c.data in P1[path]
                if both:
                    if in0 and not in1:
                        if dc not in (DC.REMOVED, DC.MOVED_TO):
                            errs.append(f"T0-only child {path + (c.data,)} marked {dc}")
                    elif in1 and not in0:
                        if dc not in (DC.ADDED, DC.MOVED_HERE):
                            errs.append(f"T1-only child {path + (c.data,)} marked {dc}")
                    elif in0 and in1:
                        if isinstance(dc, DC):
                            errs.append(f"two-sided child {path + (c.data,)} marked {dc}")
                        i0 = P0[path].index(c.data)
                        i1 = P1[path].index(c.data)
                        if isinstance(dc, tuple):
                            renum = True
                            if not ordered or tuple(dc) != (i0, i1) or i0 == i1:
                                errs.append(f"order mark {dc} at {path + (c.data,)}, true indexes ({i0},{i1}), ordered={ordered}")
                        elif dc is not None and not isinstance(dc, DC):
                            errs.append(f"unknown mark {dc!r}")
                        elif ordered and i0 != i1:
                            errs.append(f"missing order mark at {path + (c.data,)} ({i0}->{i1})")
                    else:
                        errs.append(f"result child {path + (c.data,)} exists on neither side")
                else:
                    if isinstance(dc, DC) and in0 and in1:
                        errs.append(f"node {path + (c.data,)} exists on both sides but is marked {dc}")
                    if isinstance(dc, tuple):
                        errs.append(f"order mark below a one-sided parent at {path + (c.data,)}")
                rec(c, path + (c.data,), both and in0 and in1)
            if both and ordered and renum and not n.get_meta("dc_renumbered") :
                errs.append(f"parent {path} lacks dc_renumbered")
            if n.get_meta("dc_renumbered") and not (ordered and renum):
                errs.append(f"parent {path} carries dc_renumbered without an order-marked child")

        rec(t2._root, (), True)
        movedto = [m for m in t2 if m.get_meta("dc") == DC.MOVED_TO]
        for n in t2:
            if n.get_meta("dc") == DC.MOVED_HERE and not any(m.data == n.data for m in movedto):
                errs.append(f"MOVED_HERE node {n.data!r} without a MOVED_TO node of the same data")
    else:
        full = t0.diff(t1, ordered=ordered, reduce=False)
        inR = {tuple(p.data for p in n.get_parent_list(add_self=True)): n for n in t2}
        inF = {tuple(p.data for p in n.get_parent_list(add_self=True)): n for n in full}
        for path, n in inR.items():
            if path not in inF:
                errs.append(f"reduced result has {path} which the full result lacks")
            else:
                fdc = inF[path].get_meta("dc")
                # whether a T0-only node counts as removed or as moved away is determined by the inputs
                if fdc in (DC.REMOVED, DC.MOVED_TO) and n.get_meta("dc") != fdc:
                    errs.append(f"{path} is marked {n.get_meta('dc')} with reduce=True but {fdc} with reduce=False")
            if not n.children and not n.get_meta("dc"):
                errs.append(f"reduced result keeps unmarked leaf {path}")
        # reduce keeps exactly the marked nodes and their ancestors: every node that carries a mark in the full result is kept
        # (not for MOVED_HERE: which of several added occurrences is re-classified differs from call to call, and the full
        # and the reduced result come from two calls)
        for path, n in inF.items():
            if n.get_meta("dc") is not None and n.get_meta("dc") != DC.MOVED_HERE and path not in inR:
                errs.append(f"{path} is marked {n.get_meta('dc')} in the full result but missing from the reduced one")
                break
        n_here_full = sum(1 for n in full if n.get_meta("dc") == DC.MOVED_HERE)
        n_here_red = sum(1 for n in t2 if n.get_meta("dc") == DC.MOVED_HERE)
        n_to_full = sum(1 for n in full if n.get_meta("dc") == DC.MOVED_TO)
        n_to_red = sum(1 for n in t2 if n.get_meta("dc") == DC.MOVED_TO)
        if (n_here_full > 0) != (n_here_red > 0) or n_to_full != n_to_red:
            errs.append(f"reduce=True has {n_here_red} moved-here / {n_to_red} moved-away marks, reduce=False has {n_here_full} / {n_to_full}")
        kids_r = paths(t2)
        kids_f = paths(full)
        for path, kids in kids_r.items():
            fk = [k for k in kids_f.get(path, []) if k in kids]
            if fk != kids:
                errs.append(f"reduce changed child order at {path}: {kids} vs {fk}")
        must = set()
        for path, kids0 in P0.items():
            if path in P1:
                kids1 = P1[path]
                for k in set(kids0) ^ set(kids1):
                    must.add(path + (k,))
                if ordered:
                    for k in set(kids0) & set(kids1):
                        if kids0.index(k) != kids1.index(k):
                            must.add(path + (k,))
        marks = len(must)
        for m in must:
            for i in range(1, len(m) + 1):
                if m[:i] not in inR:
                    errs.append(f"reduced result lacks {m[:i]} (needed for marked {m})")
                    break
    return errs, marks


def run_case(case, res):
    bad = []
    try:
        with case_deadline(60):
            t0, t1 = make_pair(case)
            total_marks = 0
            for ordered in (False, True):
                for reduce in (False, True):
                    try:
                        errs, marks = check(t0, t1, ordered, reduce, res)
                    except CaseTimeout:
                        raise
                    except Exception:
                        errs, marks = ["diff/oracle raised: " + short_tb()], 0
                    total_marks += marks
                    bad += [f"[ordered={ordered},reduce={reduce}] {e}" for e in errs]
            # state over time: the second tree is edited in ways that keep every parent's child count (children re-ordered),
            # then the same pair of tree objects is compared again - all laws hold for the pair as it is now
            if case["mode"] in ("edit", "indep", "same") and case["seed"] % 2 == 0:
                rng2 = rng_for(case["seed"], "c11-again")
                parents = [p for p in [t1._root] + list(t1) if len(p.children) >= 2]
                moved = 0
                for p in rng2.sample(parents, min(2, len(parents))):
                    try:
                        p.children[-1].move_to(p, before=True)
                        moved += 1
                    except Exception:
                        pass
                if moved:
                    res.count("pairs_compared_again_after_reordering")
                    for ordered in (False, True):
                        try:
                            errs, marks = check(t0, t1, ordered, False, res)
                        except CaseTimeout:
                            raise
                        except Exception:
                            errs = ["diff/oracle raised: " + short_tb()]
                        bad += [f"[second comparison of the same tree objects after re-ordering children of the second tree, ordered={ordered}] {e}" for e in errs]
            res.count(f"mode:{case['mode']}")
            res.case(case, nontrivial=t0.count >= 4 and t1.count >= 4 and total_marks > 0,
                     digest=[paths_key(t0), paths_key(t1)])
    except CaseTimeout:
        res.inconc("case watchdog fired")
        return
    if bad:
        res.violation(case, "; ".join(bad[:3])[:3000], n_bad=len(bad),
                      t0=t0.format(repr="{node.data}"), t1=t1.format(repr="{node.data}"))


def paths_key(t):
    return sorted(([repr(x) for x in k], [repr(x) for x in v]) for k, v in paths(t).items())


NSHARDS = 16


def shards(tier, seed):
    cnt = 330 if tier == "quick" else 100000
    return [{"name": f"rand{i}", "kind": "rand", "i": i, "count": cnt, "budget_s": 100 if tier == "quick" else 3600}
            for i in range(NSHARDS)]


def run_shard(spec, res):
    rng = rng_for(spec["seed"], "c11-shard", spec["i"])
    for j in range(spec["count"]):
        mode = rng.choice(["same", "edit", "edit", "edit", "edit", "indep", "indep", "self" if j % 3 == 0 else "edit"])
        if j % 40 == 7 and j < 6000:  # (at most 150 wide pairs per shard: each costs as much as some hundred ordinary ones)
            mode = "wide"
        run_case({"seed": rng.randrange(10**9), "mode": mode}, res)
        if res.expired():
            break
