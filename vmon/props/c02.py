"""C02 - lookups and clone queries reflect exactly the nodes currently in the tree.

Monitor: invariant at quiescent points (wf_index): after every depth-0 mutating call every
lookup (by data, data_id, node_id, with limits), clone query and count_unique is compared
with the ids recomputed from the reachable nodes and the ledger rule "explicit id, else
callback(data), else hash(data)"; ids that existed earlier and never-present ids are probed too.
"""

from __future__ import annotations

from .. import hist
from ..core import rng_for

PROP = "C02"
LEVEL = "exploration"
RULE = ("case = one history: (seed, tree class, data flavour, id configuration, length <= 40) generated op by op from "
        "the live state with hostile arguments (move into own branch, equal siblings, nested clones, invalid positions), "
        "wf_index (all lookups and clone queries, 7 data flavours x 3 id configurations) evaluated after every call; plus one-step cases (state, op) for all forests up to the bound; "
        "non-trivial = >= 3 executed steps on a tree that reached >= 4 nodes and held a clone group; distinct by case")
ASSUMPTIONS = ["the set of removed nodes is derived from the documented meaning of the op on the pre-state (reference model)",
               "after a call whose outcome the documentation leaves open the model is re-synchronised from the real tree"]
MECH = ["nutree.tree:Tree._register", "nutree.tree:Tree._unregister", "nutree.node:Node.set_data", "nutree.tree:Tree.find_all",
        "nutree.tree:Tree.find_first", "nutree.tree:Tree.__contains__", "nutree.node:Node.get_clones", "nutree.node:Node.is_clone",
        "nutree.tree:Tree.calc_data_id"]
MIN_NONTRIVIAL = {"quick": 10000, "thorough": 200000}
EXHAUSTIVE = {"quick": True, "thorough": True}
OWN = "C02"
PROFILE = "c02"


def run_case(case, res):
    if case.get("kind") == "repotests":
        return run_repotests({}, res)
    if case.get("kind") == "onestep":
        from . import c04
        return c04.run_onestep(case, res, own_prop=OWN)
    s = hist.run_history(case, res, own_prop=OWN)
    res.case(case, nontrivial=getattr(s, "nsteps", 0) >= 3 and s.max_nodes >= 4 and s.saw_clone)


NSHARDS = 16


def shards(tier, seed):
    cnt = 320 if tier == "quick" else 9000
    out = [{"name": f"hist{i}", "kind": "hist", "i": i, "count": cnt, "budget_s": 100 if tier == "quick" else 1500}
           for i in range(NSHARDS)]
    out.append({"name": "repotests", "kind": "repotests", "i": 0, "budget_s": 300, "cov": False})
    # the same kind of histories under `python -O`, restricted to calls the documentation allows (plus the refusals the library
    # raises explicitly): nothing may depend on the side effects of an assert statement
    out += [{"name": f"opt{i}", "kind": "hist", "i": 100 + i, "count": 120 if tier == "quick" else 3000, "pyopt": True,
             "budget_s": 100 if tier == "quick" else 1500} for i in range(4)]
    bound, tb = (4, 3) if tier == "quick" else (5, 4)
    out += [{"name": f"one{i}", "kind": "one", "i": i, "bound": bound, "typed_bound": tb,
             "budget_s": 200 if tier == "quick" else 3000} for i in range(NSHARDS)]
    return out


def gen_cases(spec, profile):
    rng = rng_for(spec["seed"], profile, spec["i"])
    for j in range(spec["count"]):
        typed = rng.random() < 0.25
        case = {"seed": rng.randrange(10**9), "profile": profile, "flavour": rng.choice(hist.FLAVOURS),
                "idconf": rng.choice(["default", "default", "callback", "subclass"]), "typed": typed,
                "steps": rng.choice([5, 10, 20, 30, 40]), "hostile": True, "allow_unspec": True}
        if spec.get("pyopt"):
            case.update(pyopt=True, valid_only=True, hostile=False, allow_unspec=False)
        yield case


def run_repotests(spec, res):
    """The repository's own test-suite as an additional workload under the C01-C03 monitors."""
    import json, os, subprocess, sys, tempfile
    from .. import REPO, VERIF

    out = tempfile.mktemp(prefix="vmon-wf-", suffix=".json")
    env = dict(os.environ, VMON_WF_OUT=out, PYTHONPATH=VERIF + os.pathsep + REPO, PYTHONHASHSEED="0")
    try:
        r = subprocess.run([sys.executable, "-m", "pytest", "-q", "-p", "no:cacheprovider", "-o", "addopts=", "-p", "vmon.pytest_wf",
                            "--timeout=600", "tests"], cwd=REPO, env=env, capture_output=True, text=True, timeout=900)
        data = json.load(open(out))
    except Exception as e:
        res.inconc(f"repository tests under monitors could not be run: {e!r}")
        return
    finally:
        if os.path.exists(out):
            os.unlink(out)
    res.count("repotests_calls_monitored", data["counters"]["calls"])
    res.count("repotests_exitstatus", data["exitstatus"])
    case = {"kind": "repotests"}
    res.case(case, nontrivial=data["counters"]["calls"] > 100)
    for f in data["findings"]:
        if f["tag"].split(":")[0] == OWN:
            res.violation(case, f"[{f['tag']}] while running {f['test']}, after {f['after']}: {f['msg']}")
        else:
            res.count(f"context_finding:{f['tag']}")


def run_shard(spec, res):
    if spec["kind"] == "repotests":
        return run_repotests(spec, res)
    if spec["kind"] == "one":
        from . import c04
        for case in c04.onestep_cases(spec["bound"], spec["typed_bound"], spec["i"], NSHARDS):
            run_case(case, res)
            if res.expired():
                res.count("exhaustive_cut")
                res.inconc("enumeration cut by time budget")
                return
        return
    for case in gen_cases(spec, PROFILE):
        run_case(case, res)
        if res.expired():
            break


def summarize(total):
    return {"op_outcomes": {k[3:]: v for k, v in total.counters.items() if k.startswith("op:")},
            "findings_of_other_properties_seen": {k[16:]: v for k, v in total.counters.items() if k.startswith("context_finding:")}}
