"""C03 - a parent never holds two children with the same data_id.

Monitor: invariant + refusal monitor.  wf_siblings after every depth-0 call; the reference
model predicts from the pre-state whether the documented effect of a call would put a
second child with an already present data_id under some parent - then the call must raise
UniqueConstraintError (and nothing else).  Collision-seeking histories and one-step cases
drive every route; documents with duplicate siblings drive from_dict() and load().
"""

from __future__ import annotations

from .. import hist
from ..core import rng_for

PROP = "C03"
LEVEL = "exploration"
RULE = ("case = one history: (seed, tree class, data flavour, id configuration, length <= 40) generated op by op from "
        "the live state with hostile arguments (move into own branch, equal siblings, nested clones, invalid positions), "
        "wf_siblings and the collision predictor evaluated at every call; plus one-step cases (state, op) for all forests up to the bound; "
        "non-trivial = >= 3 executed steps on a tree that reached >= 4 nodes and held a clone group; distinct by case")
ASSUMPTIONS = ["the set of removed nodes is derived from the documented meaning of the op on the pre-state (reference model)",
               "after a call whose outcome the documentation leaves open the model is re-synchronised from the real tree"]
MECH = ["nutree.tree:Tree._register", "nutree.node:Node.add_child", "nutree.node:Node._add_nodes", "nutree.node:Node.move_to",
        "nutree.node:Node.remove", "nutree.node:Node.set_data", "nutree.node:Node.copy_to", "nutree.node:Node.from_dict",
        "nutree.tree:Tree._from_list", "nutree.typed_tree:TypedTree._from_list"]
ROUTES = ["add", "sibling", "addnode", "copy_children", "move", "remove", "set_data", "rename", "addtree"]
MIN_COUNTERS = {"quick": {f"op:{r}:refuse:uniqueness": 20 for r in ROUTES} | {"doc_refusals": 50},
                "thorough": {f"op:{r}:refuse:uniqueness": 200 for r in ROUTES} | {"doc_refusals": 500}}
MIN_NONTRIVIAL = {"quick": 10000, "thorough": 200000}
EXHAUSTIVE = {"quick": True, "thorough": True}
OWN = "C03"
PROFILE = "c03"


def run_doc(case, res):
    """Documents with duplicate siblings must be refused by from_dict() and load()."""
    import io, json
    from nutree import Tree, UniqueConstraintError
    from nutree.typed_tree import TypedTree

    rng = rng_for(case["seed"], "c03-doc")
    labs = rng.sample("abcdef", rng.randint(1, 4))
    dup = rng.choice(labs)
    route = case["route"]
    res.case(case, nontrivial=True)
    res.count("doc_cases")
    try:
        if route == "from_dict":
            kids = [{"data": l} for l in labs]
            kids.insert(rng.randrange(len(kids) + 1), {"data": dup})
            doc = [{"data": "top", "children": kids}] if rng.random() < 0.5 else kids
            try:
                t = Tree.from_dict(doc)
            except UniqueConstraintError:
                res.count("doc_refusals")
                return
            except Exception as e:
                res.violation(case, f"[C03:wrong_error] from_dict of duplicate siblings raised {type(e).__name__}: {e}", doc=doc)
                return
            res.violation(case, "[C03:collision_not_refused] from_dict accepted duplicate siblings", doc=doc)
        else:
            typed = route == "load_typed"
            form = case["form"]
            entries = [[0, "top"]]
            for l in labs:
                entries.append([1, {"str": l, "kind": "k"} if typed else l])
            pos = 2 + labs.index(dup)
            if form == "spelled":
                entries.append([1, {"str": dup, "kind": "k"} if typed else dup])
            elif form == "ref":
                entries.append([1, pos])  # clone reference below the same parent
            else:  # explicit id equal to a sibling's explicit id
                entries = [[0, "top"], [1, {"str": "p", "data_id": "ID1", **({"kind": "k"} if typed else {})}],
                           [1, {"str": "q", "data_id": "ID1", **({"kind": "k"} if typed else {})}]]
            doc = {"meta": {"$generator": "nutree/0.9", "$format_version": "1.0"}, "nodes": entries}
            fp = io.StringIO(json.dumps(doc))
            container = (len(labs) + len(form) + (1 if typed else 0)) % 3  # 0: open stream, 1: path, 2: zipped file
            tmpd = None
            if container:
                import os
                import shutil
                import tempfile
                import zipfile

                tmpd = tempfile.mkdtemp(prefix="vmon-c03-")
                fp = os.path.join(tmpd, "dup.nutree")
                if container == 2:
                    with zipfile.ZipFile(fp, "w", compression=zipfile.ZIP_DEFLATED) as zf:
                        zf.writestr("dup.nutree.json", json.dumps(doc))
                else:
                    with open(fp, "w", encoding="utf8") as f2:
                        f2.write(json.dumps(doc))
                res.count(f"doc_container:{container}")
            try:
                try:
                    (TypedTree if typed else Tree).load(fp, mapper=lambda n, d: d["str"])
                finally:
                    if tmpd:
                        shutil.rmtree(tmpd, ignore_errors=True)
            except UniqueConstraintError:
                res.count("doc_refusals")
                return
            except Exception as e:
                res.violation(case, f"[C03:wrong_error] load of duplicate siblings raised {type(e).__name__}: {e}", doc=doc)
                return
            res.violation(case, "[C03:collision_not_refused] load accepted duplicate siblings", doc=doc)
    except Exception:
        from ..core import short_tb
        res.inconc("doc harness error: " + short_tb())


def run_hostile_str(case, res):
    """Data objects whose display methods (`__str__`, `__repr__`, `__format__`) raise: the uniqueness check may not need
    them, and however an attempt to create a second sibling with the same data_id ends, it must not succeed."""
    from nutree import Tree
    from nutree.typed_tree import TypedTree

    from .. import wf

    exc_types = {"KeyError": KeyError, "ValueError": ValueError, "AttributeError": AttributeError, "TypeError": TypeError,
                 "IndexError": IndexError, "StopIteration": StopIteration, "AssertionError": AssertionError}
    E = exc_types[case["exc"]]

    class Caption:
        def __init__(self, key):
            self.key = key

        def _boom(self, *a):
            raise E(f"no translation for {self.key}")

        __str__ = __repr__ = __format__ = _boom

        def __hash__(self):
            return hash(self.key)

        def __eq__(self, other):
            return isinstance(other, Caption) and other.key == self.key

    typed = case["typed"]
    kw = {"kind": "k"} if typed else {}
    t = (TypedTree if typed else Tree)("t")
    p = t.add("P", **kw)
    q = t.add("Q", **kw)
    a = p.add(Caption("x"), data_id="dup", **kw)
    a.add("below-a", **kw)
    other = q.add(Caption("x2"), data_id="dup", **kw)  # same id under another parent: a clone group of two
    sib = p.add(Caption("y"), data_id="other-id", **kw)
    holder = q.add("holder", **kw)
    holder.add(Caption("x3"), data_id="dup", **kw)
    attempts = {
        "add": lambda: p.add(Caption("x"), data_id="dup", **kw),
        "add_before": lambda: p.add(Caption("z"), data_id="dup", before=True, **kw),
        "add_node": lambda: p.add(other, **kw),
        "add_node_deep": lambda: p.add(other, deep=True, **kw),
        "copy_to": lambda: other.copy_to(p),
        "move_to": lambda: other.move_to(p),
        "set_data": lambda: sib.set_data(Caption("x"), data_id="dup"),
        "set_data_id_only": lambda: sib.set_data(None, data_id="dup"),
        "remove_keep_children": lambda: holder.remove(keep_children=True) or other.parent.children,  # q then holds two 'dup'
        "append_sibling": lambda: a.append_sibling(Caption("x"), data_id="dup"),
        "from_dict": lambda: sib.from_dict([{"data": "n1", "data_id": "same"}, {"data": "n2", "data_id": "same"}]),
    }
    bad = []
    for name, fn in attempts.items():
        try:
            fn()
            outcome = "returned"
        except Exception as e:  # noqa: BLE001
            outcome = type(e).__name__
        res.count(f"hostile_str:{name}:{outcome}")
        errs, nodes = wf.wf_graph(t)
        e3 = wf.wf_siblings(t, nodes) if nodes else []
        if errs or e3:
            bad.append(f"after {name} ({outcome}) with data whose display methods raise {case['exc']}: " + "; ".join((errs + e3)[:2]))
            break
    res.case(case, nontrivial=True)
    if bad:
        res.violation(case, bad[0][:2500])


def run_case(case, res):
    if case.get("kind") == "hostile_str":
        return run_hostile_str(case, res)
    if case.get("kind") == "repotests":
        return run_repotests({}, res)
    if case.get("kind") == "doc":
        return run_doc(case, res)
    if case.get("kind") == "onestep":
        from . import c04
        return c04.run_onestep(case, res, own_prop=OWN)
    s = hist.run_history(case, res, own_prop=OWN)
    res.case(case, nontrivial=getattr(s, "nsteps", 0) >= 3 and s.max_nodes >= 4 and s.saw_clone)


NSHARDS = 16


def shards(tier, seed):
    cnt = 320 if tier == "quick" else 9000
    out = [{"name": f"hist{i}", "kind": "hist", "i": i, "count": cnt, "budget_s": 100 if tier == "quick" else 1500}
           for i in range(NSHARDS)]
    out.append({"name": "docs", "kind": "docs", "i": 0, "count": 60 if tier == "quick" else 600, "budget_s": 60})
    out.append({"name": "repotests", "kind": "repotests", "i": 0, "budget_s": 300, "cov": False})
    bound, tb = (4, 3) if tier == "quick" else (5, 4)
    out += [{"name": f"one{i}", "kind": "one", "i": i, "bound": bound, "typed_bound": tb,
             "budget_s": 200 if tier == "quick" else 3000} for i in range(NSHARDS)]
    return out


def gen_cases(spec, profile):
    rng = rng_for(spec["seed"], profile, spec["i"])
    for j in range(spec["count"]):
        typed = rng.random() < 0.25
        yield {"seed": rng.randrange(10**9), "profile": profile, "flavour": rng.choice(hist.FLAVOURS),
               "idconf": rng.choice(["default", "default", "callback", "subclass"]), "typed": typed,
               "steps": rng.choice([5, 10, 20, 30, 40]), "hostile": True, "allow_unspec": True}


def run_repotests(spec, res):
    """The repository's own test-suite as an additional workload under the C01-C03 monitors."""
    import json, os, subprocess, sys, tempfile
    from .. import REPO, VERIF

    out = tempfile.mktemp(prefix="vmon-wf-", suffix=".json")
    env = dict(os.environ, VMON_WF_OUT=out, PYTHONPATH=VERIF + os.pathsep + REPO, PYTHONHASHSEED="0")
    try:
        r = subprocess.run([sys.executable, "-m", "pytest", "-q", "-p", "no:cacheprovider", "-o", "addopts=", "-p", "vmon.pytest_wf",
                            "--timeout=600", "tests"], cwd=REPO, env=env, capture_output=True, text=True, timeout=900)
        data = json.load(open(out))
    except Exception as e:
        res.inconc(f"repository tests under monitors could not be run: {e!r}")
        return
    finally:
        if os.path.exists(out):
            os.unlink(out)
    res.count("repotests_calls_monitored", data["counters"]["calls"])
    res.count("repotests_exitstatus", data["exitstatus"])
    case = {"kind": "repotests"}
    res.case(case, nontrivial=data["counters"]["calls"] > 100)
    for f in data["findings"]:
        if f["tag"].split(":")[0] == OWN:
            res.violation(case, f"[{f['tag']}] while running {f['test']}, after {f['after']}: {f['msg']}")
        else:
            res.count(f"context_finding:{f['tag']}")


def run_shard(spec, res):
    if spec["kind"] == "repotests":
        return run_repotests(spec, res)
    if spec["kind"] == "docs":
        for exc in ("KeyError", "ValueError", "AttributeError", "TypeError", "IndexError", "StopIteration", "AssertionError"):
            for typed in (False, True):
                run_case({"kind": "hostile_str", "exc": exc, "typed": typed}, res)
        rng = rng_for(spec["seed"], "c03-docs")
        for j in range(spec["count"]):
            for route, form in (("from_dict", ""), ("load", "spelled"), ("load", "ref"), ("load", "ids"),
                                ("load_typed", "spelled"), ("load_typed", "ref"), ("load_typed", "ids")):
                run_case({"kind": "doc", "route": route, "form": form, "seed": rng.randrange(10**9)}, res)
        return
    if spec["kind"] == "one":
        from . import c04
        for case in c04.onestep_cases(spec["bound"], spec["typed_bound"], spec["i"], NSHARDS):
            run_case(case, res)
            if res.expired():
                res.count("exhaustive_cut")
                res.inconc("enumeration cut by time budget")
                return
        return
    for case in gen_cases(spec, PROFILE):
        run_case(case, res)
        if res.expired():
            break


def summarize(total):
    return {"op_outcomes": {k[3:]: v for k, v in total.counters.items() if k.startswith("op:")},
            "findings_of_other_properties_seen": {k[16:]: v for k, v in total.counters.items() if k.startswith("context_finding:")}}
