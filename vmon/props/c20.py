"""C20 - build_random_tree produces a tree that conforms to its structure definition.

Monitor: conformance.  The structure definition is interpreted independently
(allowed types, counts, merged attributes, macros, randomizer ranges) and every
node of the produced tree is checked against it.
"""

from __future__ import annotations

import datetime
import random

from ..core import CaseTimeout, case_deadline, rng_for, short_tb, note_exc

PROP = "C20"
LEVEL = "exploration"
RULE = ("case = (seed of a generated structure definition, random seed, tree class); definitions have 1-4 types, "
        "acyclic relation graphs incl. a type reachable from two parents, fixed and randomized counts, every randomizer "
        "class, custom :factory/:callback; non-trivial = produced tree has >= 5 nodes, depth >= 2 and a randomized count "
        "or attribute; distinct by (definition seed, random seed, class)")
ASSUMPTIONS = [
    "every generated type carries a constant marker attribute _t=<type> so the type is observable in untyped trees",
    "int RangeRandomizer upper bound accepted inclusively",
    "{idx}: for a parent type with several child relations both readings (index within the relation / within all "
    "siblings) are accepted; with one relation they coincide and the check is exact",
]
MECH = ["nutree.tree_generator:_make_tree", "nutree.tree_generator:_merge_specs", "nutree.tree_generator:_resolve_random_dict",
        "nutree.tree_generator:build_random_tree", "nutree.tree:Tree.build_random_tree",
        "nutree.tree_generator:RangeRandomizer.generate", "nutree.tree_generator:DateRangeRandomizer.generate",
        "nutree.tree_generator:ValueRandomizer.generate", "nutree.tree_generator:SampleRandomizer.generate",
        "nutree.tree_generator:TextRandomizer.generate", "nutree.tree_generator:BlindTextRandomizer.generate"]
MIN_NONTRIVIAL = {"quick": 400, "thorough": 8000}


class Fac:
    def __init__(self, **kw):
        self.kw = kw


def _cb(data):
    data["cb"] = "called"


def _cb_nested(data):
    """A callback that builds another, unrelated random tree while the outer build is running (e.g. to attach a summary)."""
    from nutree import Tree

    inner = Tree.build_random_tree({"relations": {"__root__": {"Z": {":count": 2, "zv": 1}}, "Z": {"ZZ": {":count": 1}}},
                                    "types": {"*": {"zglob": True}}})
    assert inner.count == 4
    data["cb"] = "called"


import enum as _enum


class TE(str, _enum.Enum):
    """Type names that are members of a str-Enum (they *are* strings equal to their value)."""
    T0 = "T0"
    T1 = "T1"
    T2 = "T2"
    T3 = "T3"


_SENTINEL = object()


def _plain_function(*args, **kwargs):
    raise AssertionError("an attribute value was called")


class _Handle:
    """an application object that refuses to be copied (a connection, a lock, a GUI handle)"""

    def __deepcopy__(self, memo):
        raise TypeError("cannot be copied")

    def __reduce__(self):
        raise TypeError("cannot be pickled")


DECL = {}  # id(randomizer object) -> parameters as *declared* by the generator (never read back from the object)


class _Decl:
    """Creates randomizers and remembers the declared parameters independently of the library object."""

    def __init__(self, tg):
        self.tg = tg

    def _reg(self, obj, **params):
        DECL[id(obj)] = params
        return obj

    def RangeRandomizer(self, lo, hi, *, probability=1.0, none_value=None):
        return self._reg(self.tg.RangeRandomizer(lo, hi, probability=probability, none_value=none_value),
                         min=lo, max=hi, probability=probability, none_value=none_value, is_float=isinstance(lo, float))

    def ValueRandomizer(self, value, *, probability):
        return self._reg(self.tg.ValueRandomizer(value, probability=probability), value=value, probability=probability)

    def SparseBoolRandomizer(self, *, probability):
        return self._reg(self.tg.SparseBoolRandomizer(probability=probability), value=True, probability=probability)

    def SampleRandomizer(self, lst, *, counts=None, probability=1.0):
        return self._reg(self.tg.SampleRandomizer(lst, counts=counts, probability=probability), sample_list=list(lst), probability=probability)

    def DateRangeRandomizer(self, lo, hi, *, as_js_stamp=True, probability=1.0):
        import datetime as _dt

        hi_d = lo + _dt.timedelta(days=hi) if isinstance(hi, int) else hi
        return self._reg(self.tg.DateRangeRandomizer(lo, hi, as_js_stamp=as_js_stamp, probability=probability),
                         min=lo, max=hi_d, as_js_stamp=as_js_stamp, probability=probability)

    def TextRandomizer(self, template, *, probability=1.0):
        return self._reg(self.tg.TextRandomizer(template, probability=probability), template=template, probability=probability)

    def BlindTextRandomizer(self, *, sentence_count=(2, 6), probability=1.0):
        return self._reg(self.tg.BlindTextRandomizer(sentence_count=sentence_count, probability=probability), probability=probability)


class _P:
    """Attribute view on a declared-parameter dict."""

    def __init__(self, d):
        self.__dict__.update(d)


def gen_def(rng):
    from nutree import tree_generator as _tg

    DECL.clear()
    tg = _Decl(_tg)

    ntypes = rng.randint(1, 4)
    types = [f"T{i}" for i in range(ntypes)]
    if rng.random() < 0.15:
        types = [TE(x) for x in types]
    tdefs = {}
    if rng.random() < 0.1:
        # a definition whose attributes are constants that are neither strings nor randomizers (the type marker is an int code)
        for i, ty in enumerate(types):
            tdefs[ty] = {"_t": i}
            if rng.random() < 0.5:
                tdefs[ty]["n"] = rng.randint(0, 5)

        def nspec():
            sp = {}
            if rng.random() < 0.8:
                sp[":count"] = rng.randint(2, 3)
            if rng.random() < 0.4:
                sp["ratio"] = 0.5
            if rng.random() < 0.3:
                sp["flag"] = True
            return sp

        rel = {"__root__": {ty: nspec() for ty in rng.sample(types, rng.randint(1, len(types)))}}
        for i, ty in enumerate(types):
            later = types[i + 1:]
            if later and rng.random() < 0.8:
                rel[ty] = {c: nspec() for c in rng.sample(later, rng.randint(1, len(later)))}
        return {"relations": rel, "types": tdefs}
    if rng.random() < 0.6:
        tdefs["*"] = {"g": rng.randint(0, 9), "gg": "glob", **({"style": {"a": 1, "z": 0}} if rng.random() < 0.5 else {})}
        if rng.random() < 0.2:
            tdefs["*"][":factory"] = Fac
    marker_in_relation = set()
    for ty in types:
        if rng.random() < 0.3:
            # a type without an own entry in `types`: it still gets the '*' defaults; the marker goes into the relations
            marker_in_relation.add(ty)
            continue
        tdefs[ty] = {"_t": ty}
        if rng.random() < 0.6:
            tdefs[ty]["icon"] = ty.lower()
        if rng.random() < 0.3:
            tdefs[ty]["g"] = "typeoverride"
        if rng.random() < 0.2:
            tdefs[ty][":factory"] = Fac
        if rng.random() < 0.2:
            tdefs[ty]["tr"] = tg.RangeRandomizer(100, 105)
        if rng.random() < 0.3:
            tdefs[ty]["style"] = {"b": 2, "a": 1}
        if rng.random() < 0.2:
            # a default count for this type (relations may override it)
            tdefs[ty][":count"] = rng.choice([0, 2, 3, tg.RangeRandomizer(2, 4)])

    def spec():
        s = {}
        c = rng.choice(["fixed", "fixed", "range", "default", "default", "rangep", "zero", "rangep0"])
        if c == "fixed":
            s[":count"] = rng.randint(1, 3)
        elif c == "zero":
            s[":count"] = 0
        elif c == "range":
            a = rng.randint(0, 2)
            s[":count"] = tg.RangeRandomizer(a, a + rng.randint(1, 3))
        elif c == "rangep":
            s[":count"] = tg.RangeRandomizer(1, 3, probability=0.5)
        elif c == "rangep0":
            s[":count"] = tg.RangeRandomizer(1, 3, probability=0.0)  # never fires: no children
        s["title"] = rng.choice(["N {idx}", "H {hier_idx}", "{idx}:{hier_idx}", "plain", "{hier_idx}/{idx}/{idx}", "#{idx:02d}", "{idx:>3}|{hier_idx:>9}"])
        if rng.random() < 0.5:
            s["v"] = tg.RangeRandomizer(5, 9)
        if rng.random() < 0.4:
            s["f"] = tg.RangeRandomizer(0.5, 1.5)
        if rng.random() < 0.3:
            s["vn"] = tg.RangeRandomizer(1, 4, probability=0.5, none_value=-1)
        if rng.random() < 0.5:
            s["p"] = tg.ValueRandomizer("x", probability=rng.choice([0.0, 0.5, 1.0]))
        if rng.random() < 0.4:
            s["b"] = tg.SparseBoolRandomizer(probability=0.5)
        if rng.random() < 0.4:
            s["s"] = tg.SampleRandomizer(["o", "c", "z"], probability=rng.choice([0.5, 1.0]))
        if rng.random() < 0.2:
            s["sc"] = tg.SampleRandomizer(["o", "c"], counts=[3, 1])
        if rng.random() < 0.3:
            s["d"] = tg.DateRangeRandomizer(datetime.date(2020, 1, 1), 30, as_js_stamp=False)
        if rng.random() < 0.25:
            # relative upper bound (days) together with a probability
            s["dp"] = tg.DateRangeRandomizer(datetime.date(2022, 5, 1), 20, as_js_stamp=rng.random() < 0.5, probability=rng.choice([0.0, 0.0, 0.5]))
        if rng.random() < 0.2:
            s["dj"] = tg.DateRangeRandomizer(datetime.date(2021, 2, 1), datetime.date(2021, 3, 1), probability=0.7)
        if rng.random() < 0.3:
            s["tx"] = tg.TextRandomizer("fixed {idx} text")
        if rng.random() < 0.15:
            s["tq"] = tg.TextRandomizer(["$(Noun) one", "$(Noun) two"], probability=0.8)
        if rng.random() < 0.1:
            s["bt"] = tg.BlindTextRandomizer(sentence_count=1)
        if rng.random() < 0.3:
            s["g"] = "relationoverride"
        if rng.random() < 0.25:
            s["nothing"] = None  # a literal None is an ordinary attribute value
        if rng.random() < 0.2:
            s["size"] = (480, 640)  # literal tuples / lists are ordinary attribute values
            s["tags"] = ["x", "y"]
        if rng.random() < 0.15:
            s["zero"] = 0
            s["empty"] = ""
        if rng.random() < 0.25:
            s["gt"] = tg.ValueRandomizer("{{idx}}/{idx} {{ css: red }}", probability=rng.choice([1.0, 0.5]))
        if rng.random() < 0.25:
            # a dict-valued attribute on several layers: the most specific layer's value is the attribute (whole, not merged)
            s["style"] = rng.choice([{}, {"c": 3}, {"a": 9}])
        if rng.random() < 0.2:
            # values that are objects of the application (compared by identity, not copyable): they are handed on as they are
            s["marker"] = _SENTINEL
            s["handle"] = _Handle()
            # ... also values that happen to be callable (a class, a function): attribute values are data, only Randomizer
            # instances are asked for a value
            s["cls"] = int
            s["fn"] = _plain_function
        if rng.random() < 0.2:
            # attribute names are arbitrary strings: only a *leading* colon marks a generator option
            s["xml:lang"] = "en"
            s["a-b c"] = tg.RangeRandomizer(1, 2)
            s["ratio:"] = 0.5
            s["\u00fcn\u00ef"] = "{idx}"
        if rng.random() < 0.2:
            s[":callback"] = _cb if rng.random() < 0.6 else _cb_nested
        if rng.random() < 0.15:
            s[":factory"] = Fac
        return s

    def rspec(ty):
        sp = spec()
        if ty in marker_in_relation:
            sp["_t"] = ty
        return sp

    rel = {"__root__": {ty: rspec(ty) for ty in rng.sample(types, rng.randint(1, len(types)))}}
    for i, ty in enumerate(types):
        later = types[i + 1:]
        if later and rng.random() < 0.8:
            rel[ty] = {c: rspec(c) for c in rng.sample(later, rng.randint(1, len(later)))}
    if rng.random() < 0.25:
        # a relation graph with a cycle (folders in folders): legal as long as the counts let the recursion die out - the
        # self-relation has less than 0.4 children on average and is the only cycle (longer cycles would multiply with the
        # fixed counts on their way and could run away on the unchanged library, too)
        ty = rng.choice(types)
        back = ty
        sp = rspec(back)
        sp[":count"] = rng.choice([tg.RangeRandomizer(0, 1, probability=0.6), tg.RangeRandomizer(1, 2, probability=0.25)])
        sp.pop(":callback", None)
        rel.setdefault(ty, {})[back] = sp
    if "*" in tdefs and rng.random() < 0.3:
        tdefs["*"]["gnone"] = None
    d = {"relations": rel, "types": tdefs}
    if rng.random() < 0.5:
        d["name"] = "gen"
    return d


def describe(sd):
    """Printable, complete image of a structure definition (every level of nesting, dict order included)."""
    def val(v):
        if isinstance(v, dict):
            return {repr(k): val(x) for k, x in v.items()}
        if isinstance(v, (list, tuple)):
            return [type(v).__name__] + [val(x) for x in v]
        if isinstance(v, (str, int, float, bool, type(None))):
            return v
        return f"<{type(v).__name__} {sorted((k, repr(x)) for k, x in getattr(v, '__dict__', {}).items())}>"

    return val(sd)


def check_tree(tree, sd, typed, bad, res):
    from nutree import tree_generator as tg
    from nutree.common import DictWrapper

    types = sd.get("types", {})
    rel = sd["relations"]

    def attrs_of(node):
        d = node.data
        if isinstance(d, DictWrapper):
            return d._dict
        if isinstance(d, Fac):
            return d.kw
        bad.append(f"node data is {type(d).__name__}")
        return {}

    def rec(node, ptype, prefix_opts, depth):
        kids = list(node.children)
        allowed = rel.get(ptype, {})
        by_type = {}
        for pos, k in enumerate(kids, 1):
            a = attrs_of(k)
            ty = a.get("_t")
            if isinstance(ty, int) and not isinstance(ty, bool):
                ty = f"T{ty}"  # int-coded marker of the all-constant definitions
            if typed:
                if k.kind != ty:
                    bad.append(f"kind {k.kind!r} != type marker {ty!r}")
            if ty not in allowed:
                bad.append(f"child of type {ty!r} below {ptype!r}, allowed {list(allowed)}")
                continue
            by_type.setdefault(ty, []).append((pos, k, a))
        for ty, spec in allowed.items():
            merged = dict(types.get("*", {}))
            merged.update(types.get(ty, {}))
            merged.update(spec)
            cnt = merged.pop(":count", 1)
            cb = merged.pop(":callback", None)
            fac = merged.pop(":factory", DictWrapper)
            run = by_type.get(ty, [])
            n = len(run)
            res.count("relations_checked")
            if isinstance(cnt, tg.RangeRandomizer):
                cnt = _P(DECL[id(cnt)])
                ok = cnt.min <= n <= cnt.max or (cnt.probability < 1.0 and n == 0)
                if cnt.probability == 0.0 and n != 0:
                    ok = False  # (random() <= 0.0 has probability 2**-53: treated as never)
                if not ok:
                    bad.append(f"{n} children of type {ty} below a {ptype}, count range [{cnt.min},{cnt.max}] p={cnt.probability}")
            elif n != cnt:
                bad.append(f"{n} children of type {ty} below a {ptype}, fixed count {cnt}")
            single_rel = len(allowed) == 1
            for i, (pos, k, a) in enumerate(run, 1):
                res.count("nodes_checked")
                if not isinstance(k.data, fac):
                    bad.append(f"data class {type(k.data).__name__}, factory {fac.__name__}")
                # "sibling index" may be read as the index within the relation or among all siblings; whichever reading is
                # taken, it has to be the same one for {idx}, for {hier_idx} and for every component of the path
                readings = [(i, prefix_opts[0]), (pos, prefix_opts[1])]
                pairs = {(j, (f"{p}.{j}" if p else f"{j}")) for j, p in readings}
                hier_opts = ((f"{prefix_opts[0]}.{i}" if prefix_opts[0] else f"{i}"), (f"{prefix_opts[1]}.{pos}" if prefix_opts[1] else f"{pos}"))
                for key, val in merged.items():
                    if key.startswith(":"):
                        bad.append(f"unexpected special key {key}")
                    if isinstance(val, tg.Randomizer):
                        res.count(f"rand:{type(val).__name__}")
                        rcls = type(val)
                        val = _P(DECL[id(val)])
                        if key not in a:
                            if val.probability == 1.0 or (issubclass(rcls, tg.RangeRandomizer) and val.none_value is not None):
                                bad.append(f"attribute {key} missing although probability is 1.0 / none_value set")
                            continue
                        v = a[key]
                        if val.probability == 0.0 and not (issubclass(rcls, tg.RangeRandomizer) and val.none_value is not None):
                            bad.append(f"attribute {key} is present although its probability is 0.0")
                        if v is None:
                            bad.append(f"skipped attribute {key} stored as None")
                        elif issubclass(rcls, tg.RangeRandomizer):
                            if v == val.none_value and val.probability < 1.0:
                                pass
                            elif not (val.min <= v <= val.max) or (val.is_float != isinstance(v, float)):
                                bad.append(f"attribute {key}={v!r} outside [{val.min},{val.max}]")
                        elif issubclass(rcls, tg.SampleRandomizer):
                            if v not in val.sample_list:
                                bad.append(f"attribute {key}={v!r} not in sample list")
                        elif rcls.__name__ == "SparseBoolRandomizer":
                            # documented: "If the value is False, it is returned as None" - i.e. present means True
                            if v is not True:
                                bad.append(f"sparse boolean attribute {key}={v!r} (it is either True or absent)")
                        elif issubclass(rcls, tg.ValueRandomizer):
                            if isinstance(val.value, str):
                                # a generated string is a template like a literal one: expanded exactly once
                                expv = {val.value.format(idx=j, hier_idx=h) for j, h in pairs}
                                if v not in expv:
                                    bad.append(f"attribute {key}={v!r}, the generated template {val.value!r} expands to {sorted(expv)}")
                            elif v != val.value:
                                bad.append(f"attribute {key}={v!r} != {val.value!r}")
                        elif issubclass(rcls, tg.DateRangeRandomizer):
                            if val.as_js_stamp:
                                lo = datetime.datetime(val.min.year, val.min.month, val.min.day, tzinfo=datetime.timezone.utc).timestamp() * 1000
                                hi = (datetime.datetime(val.max.year, val.max.month, val.max.day, tzinfo=datetime.timezone.utc).timestamp() + 86400) * 1000
                                if not (isinstance(v, float) and lo <= v <= hi):
                                    bad.append(f"js date stamp {v!r} outside [{lo},{hi}]")
                            elif not (isinstance(v, datetime.date) and val.min <= v <= val.max):
                                bad.append(f"date {v!r} outside [{val.min},{val.max}]")
                        elif issubclass(rcls, tg.TextRandomizer):
                            if not isinstance(v, str) or not v:
                                bad.append(f"text attribute {key}={v!r}")
                            elif isinstance(val.template, str) and "$(" not in val.template:
                                exp = {val.template.format(idx=j, hier_idx=h) for j, h in pairs}
                                if v not in exp:
                                    bad.append(f"text attribute {key}={v!r}, expected one of {sorted(exp)}")
                        elif issubclass(rcls, tg.BlindTextRandomizer):
                            if not isinstance(v, str) or not v:
                                bad.append(f"blind text attribute {key}={v!r}")
                    elif isinstance(val, str):
                        exp = {val.format(idx=j, hier_idx=h) for j, h in pairs}
                        if "{" in val:
                            res.count("macros_checked")
                        if a.get(key) not in exp:
                            bad.append(f"attribute {key}={a.get(key)!r}, expected {sorted(exp)} (type {ty}, #{i} of relation, #{pos} of siblings)")
                    else:
                        if key not in a or a[key] != val or type(a[key]) is not type(val):
                            bad.append(f"attribute {key}={a.get(key, '<missing>')!r}, expected the literal {val!r}")
                extra = set(a) - set(merged) - ({"cb"} if cb else set())
                if extra:
                    bad.append(f"extra attributes {extra}")
                if cb and a.get("cb") != "called":
                    bad.append(":callback was not applied")
                if ty in rel:
                    rec(k, ty, hier_opts, depth + 1)
                elif list(k.children):
                    bad.append(f"type {ty} has no relations but the node has children")

    rec(tree.system_root, "__root__", ("", ""), 0)


def run_case(case, res):
    from nutree import Tree
    from nutree.typed_tree import TypedTree

    # the process time zone is part of the case: a third of the builds run west of UTC, a third east, a third in UTC (dates
    # declared in a structure definition are calendar dates - the zone of the machine must not move them)
    import os as _os
    import time as _time

    _os.environ["TZ"] = case.get("tz") or "UTC"
    _time.tzset()
    sd = gen_def(rng_for(case["def_seed"], "c20-def"))
    class UserTree(Tree):  # user subclasses: the result must be of that class; "typed" means "is a TypedTree"
        pass

    class UserTypedTree(TypedTree):
        pass

    cls = {"typed": TypedTree, "plain": Tree, "typed_sub": UserTypedTree, "plain_sub": UserTree}[case["cls"]]
    bad = []
    import copy

    before = repr(describe(sd))
    try:
        with case_deadline(30):
            if case.get("failed_build_first"):
                # an earlier build that is aborted by a raising callback must not influence later builds
                import copy as _copy

                class _Boom(Exception):
                    pass

                calls = [0]

                def _raising(data):
                    calls[0] += 1
                    if calls[0] >= 2:
                        raise _Boom()

                sd_bad = {"relations": {"__root__": {"X": {":count": 2, "t": "{hier_idx}"}},
                                        "X": {"Y": {":count": 2, "t": "{hier_idx}", ":callback": _raising}}}}
                try:
                    cls.build_random_tree(sd_bad)
                    bad.append("a build whose callback raises did not raise")
                except _Boom:
                    res.count("failed_builds_before")
                except Exception:
                    res.count("failed_builds_before_other_exception")
            random.seed(case["rand_seed"])
            try:
                if case["rand_seed"] % 3 == 0:
                    from nutree.tree_generator import build_random_tree as _brt

                    t = _brt(tree_class=cls, structure_def=sd)  # the module-level entry point
                    res.count("module_level_entry")
                else:
                    t = cls.build_random_tree(sd)
            except Exception:
                res.case(case, nontrivial=False)
                res.violation(case, "build_random_tree raised: " + short_tb(), structure_def=describe(sd))
                return
            if type(t) is not cls:
                bad.append(f"returned {type(t).__name__}, requested {cls.__name__}")
            if "name" in sd and t.name != "gen":
                bad.append(f"tree name {t.name!r}")
            if repr(describe(sd)) != before:
                bad.append("structure definition was modified")
            check_tree(t, sd, issubclass(cls, TypedTree), bad, res)
            randomized = "Randomizer" in before
            res.case(case, nontrivial=t.count >= 5 and t.calc_height() >= 2 and randomized)
            res.count("trees")
    except CaseTimeout:
        res.inconc("case watchdog fired")
        return
    except Exception:
        note_exc(res, bad, "exception escaped from the library: ")
    if bad:
        res.violation(case, "; ".join(bad[:3]), n_bad=len(bad), structure_def=describe(sd))


NSHARDS = 16


def shards(tier, seed):
    cnt = 120 if tier == "quick" else 40000
    return [{"name": f"rand{i}", "kind": "rand", "i": i, "count": cnt, "budget_s": 90 if tier == "quick" else 3600}
            for i in range(NSHARDS)]


def run_shard(spec, res):
    rng = rng_for(spec["seed"], "c20-shard", spec["i"])
    for j in range(spec["count"]):
        ds = rng.randrange(10**9)
        for rs in (rng.randrange(10**6), rng.randrange(10**6)):
            for cls in ("plain", "typed", "typed_sub" if j % 2 else "plain_sub"):
                run_case({"def_seed": ds, "rand_seed": rs, "cls": cls, "failed_build_first": (j + rs) % 4 == 0,
                          "tz": ["UTC", "PST8PDT", "Pacific/Kiritimati"][(j + rs) % 3]}, res)
        if res.expired():
            break


def summarize(total):
    return {"randomizer_classes_checked": {k[5:]: v for k, v in total.counters.items() if k.startswith("rand:")}}
