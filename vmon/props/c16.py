"""C16 - pretty-printing renders the tree shape faithfully in every style.

Monitor: decode.  Every output line is split into prefix + rendering (renderings
are unique tokens), the prefix is compared with the concatenation the style
tuple defines for that node, and for custom styles with one distinguishable
character per segment the prefixes alone are decoded back to a shape.
"""

from __future__ import annotations

from .. import gen
from ..core import CaseTimeout, case_deadline, rng_for, short_tb, note_exc

PROP = "C16"
LEVEL = "exploration"
RULE = ("case = (tree class, forest shape, start in {tree, every node}, add_self / title variant); per case every style "
        "of CONNECTORS + custom 4/6-tuples + 'list' x repr in {str, callable, default} x join in {newline, ', '} is "
        "formatted and decoded; all forests up to the bound, random larger; non-trivial = rendered branch has >= 3 "
        "nodes, depth >= 2 and a non-last sibling")
ASSUMPTIONS = ["a line is prefix + rendering; renderings are unique tokens chosen by the harness",
               "title='' (empty text) is not generated"]
MECH = ["nutree.node:Node._get_prefix", "nutree.node:Node._render_lines", "nutree.node:Node.format_iter",
        "nutree.node:Node.format", "nutree.tree:Tree.format_iter", "nutree.tree:Tree.format"]
MIN_NONTRIVIAL = {"quick": 700, "thorough": 3000}
EXHAUSTIVE = {"quick": True, "thorough": True}

CUSTOM4 = ["A", "B", "C", "D"]
CUSTOM6 = ["A", "B", "C", "D", "E", "F"]
CUSTOM4W = ["a.", "b|", "c`", "d+"]
CUSTOM4B = ["{ ", "{}", "}-", "{{"]  # segments with braces: a connector is text, never part of a format template


def expected_lines(start_kids_or_nodes, style, render, level0):
    """level0: list of nodes printed without prefix (they are the roots of what is
    rendered); below them the style applies.  Returns [(prefix, rendering)]."""
    if len(style) == 4:
        s0, s1, s2, s3 = style
        s4, s5 = s2, s3
    else:
        s0, s1, s2, s3, s4, s5 = style
    out = []

    def rec(node, anc_segments, own):
        out.append(("".join(anc_segments) + own, render(node)))
        kids = list(node.children)
        for i, c in enumerate(kids):
            last = i == len(kids) - 1
            if list(c.children):
                conn = s4 if last else s5
            else:
                conn = s2 if last else s3
            # segment contributed by `c` to its own descendants
            rec2(c, anc_segments, conn, last)

    def rec2(c, anc_segments, conn, last):
        out.append(("".join(anc_segments) + conn, render(c)))
        kids = list(c.children)
        seg = s0 if last else s1
        for i, g in enumerate(kids):
            glast = i == len(kids) - 1
            if list(g.children):
                gconn = s4 if glast else s5
            else:
                gconn = s2 if glast else s3
            rec2(g, anc_segments + [seg], gconn, glast)

    for n in level0:
        rec(n, [], "")
    return out


def expected_with_virtual_root(top, style, render):
    """Tree with a title: the title acts as level 0, top nodes get connectors."""
    if len(style) == 4:
        s0, s1, s2, s3 = style
        s4, s5 = s2, s3
    else:
        s0, s1, s2, s3, s4, s5 = style
    out = []

    def rec2(c, anc_segments, conn, last):
        out.append(("".join(anc_segments) + conn, render(c)))
        kids = list(c.children)
        seg = s0 if last else s1
        for i, g in enumerate(kids):
            glast = i == len(kids) - 1
            gconn = (s4 if glast else s5) if list(g.children) else (s2 if glast else s3)
            rec2(g, anc_segments + [seg], gconn, glast)

    for i, c in enumerate(top):
        last = i == len(top) - 1
        conn = (s4 if last else s5) if list(c.children) else (s2 if last else s3)
        rec2(c, [], conn, last)
    return out


def decode_shape(prefixes, six):
    """Single-letter custom style: rebuild (depth, is_last, has_children) per line and
    the forest below a virtual level-0.  Returns nested forest of the lines with depth>=1
    grouped under preceding depth-0 lines, plus flags."""
    info = []
    for p in prefixes:
        d = len(p)
        if d == 0:
            info.append((0, None, None))
            continue
        own = p[-1]
        if six:
            last = own in "CE"
            hk = own in "EF"
        else:
            last = own == "C"
            hk = None
        anc_last = [ch == "A" for ch in p[:-1]]
        if any(ch not in "AB" for ch in p[:-1]) or own not in ("CDEF" if six else "CD"):
            raise ValueError(f"undecodable prefix {p!r}")
        info.append((d, last, hk, anc_last))
    return info


class _StyleTuple(tuple):
    """A tuple subclass instance is a sequence of connectors like any other."""


def run_case(case, res):
    from nutree import Tree
    from nutree.common import CONNECTORS
    from nutree.typed_tree import TypedTree

    f = gen.decode(case["f"])
    typed = case["cls"] == "typed"
    if case.get("ext"):
        X = gen.ext_classes()  # other DEFAULT_CONNECTOR_STYLE, node class of its own
        t = (X["XTypedTree"] if typed else X["XTree"])("TITLE")
    else:
        t = (TypedTree if typed else Tree)("TITLE")
    if case.get("lab") == "clones":
        # the same data below different parents, also below one of its own occurrences (a clone inside its clone's branch)
        labs = gen.clone_labeling(rng_for(case.get("pseed", 0), "c16-clones", case["f"]), f, ["a", "e\u0301", "\u212b"]) or [f"n{i}" for i in range(gen.size(f))]  # (text that is not in NFC form: lines carry it unchanged)
        nodes = gen.build(t, f, lambda i: labs[i], kind=(lambda i: "kab"[(i * 7 + i // 3) % 3]) if typed else None)
    elif case.get("lab") == "eqsib":
        # siblings holding equal data under distinct ids; renderings stay unique through the id
        nodes = gen.build(t, f, lambda i: "x", kind=(lambda i: "kab"[(i * 7 + i // 3) % 3]) if typed else None, data_id=lambda i: f"n{i}")
    else:
        nodes = gen.build(t, f, lambda i: f"n{i}", kind=(lambda i: "kab"[(i * 7 + i // 3) % 3]) if typed else None)
    if case.get("prelude"):
        # refused calls / add+remove pairs first (a leaf may be left with an empty child list instead of None);
        # the set of nodes is unchanged by construction of the prelude below
        prng = rng_for(case.get("pseed", 0), "c16-prelude", case["f"])
        gen.warm_queries(t, typed)  # anything the library memoises now holds pre-mutation answers
        if prng.random() < 0.5:
            ks = {}
            try:
                t.sort(key=lambda x: ks.setdefault(id(x), prng.random()))
            except Exception:
                pass
        # structural history: a temporary wrapper is put over a child branch and dissolved again (remove(keep_children=True)
        # lifts the branch back), a branch is moved to another parent and back - afterwards the same nodes hang below the
        # same parents (sibling order may differ), whatever depth / position bookkeeping the library keeps has been exercised
        for nd in list(nodes):
            try:
                kids = list(nd.children)
                if kids and prng.random() < 0.4:
                    c = prng.choice(kids)
                    if not typed:
                        w = nd.add("tmp-wrapper")
                        c.move_to(w)
                        w.remove(keep_children=True)
                        if prng.random() < 0.5 and nd.parent is not None:
                            c.move_to(nd.parent)
                            c.move_to(nd, before=prng.choice([None, True]))
                    else:
                        w = nd.add("tmp-wrapper", kind="kw")
                        g = w.add("tmp-inner", kind="kx")
                        g.add("tmp-leaf", kind="kx")
                        w.remove(keep_children=True)
                        g.remove()
            except Exception:
                pass
        for nd in nodes:
            r = prng.random()
            try:
                if r < 0.3:
                    nd.add(nd, deep=True, data_id="not-allowed", **({"kind": "k"} if typed else {}))
                elif r < 0.5:
                    nd.add([1, 2], **({"kind": "k"} if typed else {}))  # unhashable data
                elif r < 0.7:
                    nd.add("tmp", **({"kind": "k"} if typed else {})).remove()
                elif r < 0.8:
                    nd.add("tmp", before=nd, **({"kind": "k"} if typed else {}))
            except Exception:
                pass
    start = case["start"]
    variant = case["variant"]  # node: "self"/"noself"; tree: "default"/"notitle"/"text"
    bad = []
    styles = [(k, list(v)) for k, v in CONNECTORS.items()] + [("custom4", CUSTOM4), ("custom6", CUSTOM6), ("custom4w", CUSTOM4W), ("custom4b", CUSTOM4B)]

    eq = case.get("lab") == "eqsib"

    def tok(n):
        return f"<{n.data_id}>" if eq else f"<{n.data}>"

    if start == -1:
        level0 = None
        top = list(t.children)
        rendered = []

        def rec(lst):
            for c in lst:
                rendered.append(c)
                rec(list(c.children))

        rec(top)
    else:
        s = nodes[start]
        level0 = [s] if variant == "self" else list(s.children)
        rendered = []

        def rec(lst):
            for c in lst:
                rendered.append(c)
                rec(list(c.children))

        rec(level0)
    depth2 = any(list(c.children) for c in (rendered if True else []))
    nonlast = any(len(list(x.children)) >= 2 for x in rendered) or (start == -1 and len(list(t.children)) >= 2)
    res.case(case, nontrivial=len(rendered) >= 3 and depth2 and nonlast)

    def attempt(fn):
        try:
            return fn()
        except Exception as e:
            return ("EXC", type(e).__name__, str(e)[:100])

    try:
        with case_deadline(60):
            for sname, style in styles + [("list", None), ("default", None)]:
                for rk in ("str", "call", "blank"):
                    for join in ("\n", ", "):
                        if rk == "blank" and (join != "\n" or sname in ("list", "custom4w", "custom4b")):
                            continue
                        # "blank": every node renders as the empty string - a line then consists of its prefix alone
                        rep = ("<{node.data_id}>" if eq else "<{node.data}>") if rk == "str" else tok if rk == "call" else (lambda node: "")
                        tokf = tok if rk != "blank" else (lambda n_: "")
                        kw = {"repr": rep, "join": join}
                        if sname == "list":
                            kw["style"] = "".join(["li", "st"])  # an equal string object, not the interned literal
                        elif sname != "default":
                            kw["style"] = "".join([sname[:2], sname[2:]]) if not sname.startswith("custom") else (
                                tuple(style) if rk == "str" else list(style) if rk == "call" else _StyleTuple(style))  # a tuple subclass (named tuples are)
                        eff_style = style if style is not None else list(CONNECTORS[t.DEFAULT_CONNECTOR_STYLE])
                        title_line = None
                        if start == -1:
                            if variant == "default":
                                has_title = sname != "list"
                                title_line = f"{type(t).__name__}<'TITLE'>"
                                if not has_title:
                                    title_line = None
                            elif variant == "notitle":
                                kw["title"] = False
                                has_title = False
                            else:
                                kw["title"] = "My Title"
                                has_title = True
                                title_line = "My Title"
                            got = attempt(lambda: t.format(**kw))
                            if sname == "list":
                                exp = [("", tok(n)) for n in rendered]
                            elif has_title:
                                exp = expected_with_virtual_root(top, eff_style, tokf)
                            else:
                                exp = expected_lines(None, eff_style, tokf, top)
                        else:
                            kw["add_self"] = variant == "self"
                            got = attempt(lambda: nodes[start].format(**kw))
                            if sname == "list":
                                exp = [("", tok(n)) for n in rendered]
                            else:
                                exp = expected_lines(None, eff_style, tokf, level0)
                        res.count("format_calls")
                        res.count(f"style:{sname}")
                        exp_lines = ([title_line] if title_line is not None else []) + [p + r for p, r in exp]
                        if not isinstance(got, str):
                            bad.append(f"format({sname},{rk},{join!r}) raised {got!r}")
                            continue
                        res.observe("rendered_texts", got)
                        if sname == "round43" and rk == "str" and join == "\n":
                            again = attempt(lambda: (t.format(**kw) if start == -1 else nodes[start].format(**kw)))
                            if again != got:
                                bad.append("format() called twice gives different texts")
                        got_lines = got.split(join) if (got or exp_lines) else []
                        if got == "" and not exp_lines:
                            got_lines = []
                        if got_lines != exp_lines:
                            bad.append(f"format(style={sname}, repr={rk}, join={join!r}, {variant}) start={start}: got {got_lines!r}, expected {exp_lines!r}")
                            continue
                        # decode the shape from prefixes alone for single-letter custom styles
                        if sname in ("custom4", "custom6") and join == "\n" and rk != "blank":
                            body = got_lines[1:] if title_line is not None else got_lines
                            prefixes = [ln[: ln.index("<")] for ln in body]
                            info = decode_shape(prefixes, sname == "custom6")
                            base = 0 if (start != -1 or title_line is None) else 1
                            for ln, inf, node in zip(body, info, rendered):
                                # depth relative to the level-0 nodes
                                d = 0
                                p = node
                                l0 = level0 if start != -1 else top
                                while not any(p is z for z in l0):
                                    p = p.parent
                                    d += 1
                                d += base
                                res.count("decoded_prefixes")
                                if inf[0] != d:
                                    bad.append(f"decoded depth {inf[0]} != {d} for {ln!r}")
                                if inf[0] > 0:
                                    sibs = list(node.parent.children) if node.parent is not None else top
                                    if inf[1] != (sibs[-1] is node):
                                        bad.append(f"decoded last-flag wrong for {ln!r}")
                                    if inf[2] is not None and inf[2] != bool(list(node.children)):
                                        bad.append(f"decoded has-children flag wrong for {ln!r}")
                                    # ancestors' last flags
                                    anc = []
                                    p = node.parent
                                    while p is not None and len(anc) < inf[0] - 1:
                                        ps = list(p.parent.children) if p.parent is not None else top
                                        anc.append(ps[-1] is p)
                                        p = p.parent
                                    if anc[::-1] != inf[3]:
                                        bad.append(f"decoded ancestor flags {inf[3]} != {anc[::-1]} for {ln!r}")
                # join="" concatenates the lines (format == "".join(format_iter))
                if sname not in ("default",) and not sname.startswith("custom"):
                    kwj = {"style": "list"} if sname == "list" else {"style": sname}
                    # ... and so does every other separator, also one made of characters that end (or begin) the renderings
                    for J in ("", ">", "<>", " | >0123456789nabc<", "TITLE"):
                        rp = "<{node.data_id}>" if eq else "<{node.data}>"
                        for extra in ({}, {"title": "T<n1>"}, {"title": False}) if start == -1 else ({},):
                            if start == -1:
                                a = attempt(lambda: t.format(repr=rp, join=J, **kwj, **extra))
                                b = attempt(lambda: J.join(t.format_iter(repr=rp, **kwj, **extra)))
                            else:
                                a = attempt(lambda: nodes[start].format(repr=rp, join=J, add_self=variant == "self", **kwj))
                                b = attempt(lambda: J.join(nodes[start].format_iter(repr=rp, add_self=variant == "self", **kwj)))
                            res.count("join_law_checks")
                            if a != b:
                                bad.append(f"format(join={J!r}{', ' + repr(extra) if extra else ''}) = {a!r} differs from join.join(format_iter()) = {b!r} (style {sname})")
                # a rendering that contains a line break is still one item of format_iter(): prefix + rendering
                if start == -1 and sname == "round43" and rendered:
                    ml = type(t)("ML")
                    a_ = ml.add("first\nsecond", **({"kind": "k"} if typed else {}))
                    a_.add("x\n", **({"kind": "k"} if typed else {}))
                    ml.add("last", **({"kind": "k"} if typed else {}))
                    items = attempt(lambda: list(ml.format_iter(repr="{node.data}", style="round43", title=False)))
                    want = ["first\nsecond", "╰── x\n", "last"]  # (without a title the top nodes are the unindented level)
                    res.count("multi_line_renderings")
                    if items != want:
                        bad.append(f"format_iter() with renderings that contain line breaks: {items!r}, expected {want!r}")
                # two renderings of the same tree that overlap in time (zip of two iterators, different styles and reprs)
                # are each what they are alone
                if start == -1 and sname in ("round43", "ascii32", "lines32c", "list"):
                    other = "space2" if sname != "list" else "round21"
                    solo_a = attempt(lambda: list(t.format_iter(repr="<{node.data}>", style=sname)))
                    solo_b = attempt(lambda: list(t.format_iter(repr="[{node.data_id}]", style=other, title=False)))
                    if isinstance(solo_a, list) and isinstance(solo_b, list):
                        ia, ib = t.format_iter(repr="<{node.data}>", style=sname), t.format_iter(repr="[{node.data_id}]", style=other, title=False)
                        ga, gb = [], []
                        for _ in range(max(len(solo_a), len(solo_b)) + 1):
                            for it_, acc in ((ia, ga), (ib, gb)):
                                try:
                                    acc.append(next(it_))
                                except StopIteration:
                                    pass
                        res.count("interleaved_renderings")
                        if ga != solo_a or gb != solo_b:
                            bad.append(f"two interleaved format_iter() calls (styles {sname} / {other}) differ from the same calls made one after the other: "
                                       f"{ga!r} / {gb!r} vs {solo_a!r} / {solo_b!r}"[:1500])
                # format_iter agrees with format
                if start == -1:
                    a = attempt(lambda: list(t.format_iter(repr="<{node.data}>", style=None if sname in ("default", "list") or sname.startswith("custom") else sname)))
                    b = attempt(lambda: t.format(repr="<{node.data}>", style=None if sname in ("default", "list") or sname.startswith("custom") else sname).split("\n"))
                    if a != b:
                        bad.append(f"format_iter != format for style {sname}")
                    if sname != "list" and not sname.startswith("custom"):
                        st = None if sname == "default" else sname
                        # the same for every title setting; the system root rendered without itself is the title-less tree
                        for tv in (False, "TT", True):
                            a = attempt(lambda: list(t.format_iter(repr="<{node.data}>", style=st, title=tv)))
                            b = attempt(lambda: t.format(repr="<{node.data}>", style=st, title=tv).split("\n") if t.count or tv else [])
                            if a != b and not (a == [] and b == [""]):
                                bad.append(f"format_iter(title={tv!r}) = {a!r} but format(title={tv!r}) = {b!r} (style {sname})")
                        a = attempt(lambda: t.system_root.format(repr="<{node.data}>", style=st, add_self=False))
                        b = attempt(lambda: t.format(repr="<{node.data}>", style=st, title=False))
                        if a != b:
                            bad.append(f"system_root.format(add_self=False) = {a!r}, tree.format(title=False) = {b!r} (style {sname})")
                        # a table entry passed by value (as a tuple) renders like the named style
                        if sname != "default":
                            a = attempt(lambda: t.format(repr="<{node.data}>", style=tuple(CONNECTORS[sname])))
                            b = attempt(lambda: t.format(repr="<{node.data}>", style=sname))
                            if a != b:
                                bad.append(f"style given as the tuple of table entry {sname!r} renders {a!r}, the named style {b!r}")
                    if sname == "list":
                        # an explicit title is honoured by the list style as well
                        a = attempt(lambda: t.format(repr="<{node.data}>", style="list", title="TT").split("\n"))
                        b = attempt(lambda: ["TT"] + (t.format(repr="<{node.data}>", style="list").split("\n") if t.count else []))
                        if a != b:
                            bad.append(f"format(style='list', title='TT') = {a!r}, expected {b!r}")
            # default repr
            if start == -1 and rendered and not eq:
                got = attempt(lambda: t.format(title=False, style="list"))
                exp = "\n".join((f"{n.kind} → {n.data}" if typed else repr(n.data)) for n in rendered)
                if got != exp:
                    bad.append(f"default repr: got {got!r}, expected {exp!r}")
            # print() writes format() plus a newline to the given file
            if start == -1:
                import io as _io

                for kwp in ({}, {"style": "ascii32", "title": "T"}, {"style": "list", "join": ", "}):
                    fp = _io.StringIO()
                    r = attempt(lambda: t.print(file=fp, repr="<{node.data_id}>" if eq else "<{node.data}>", **kwp))
                    e = attempt(lambda: t.format(repr="<{node.data_id}>" if eq else "<{node.data}>", **kwp))
                    if isinstance(r, tuple) or fp.getvalue() != e + "\n":
                        bad.append(f"print({kwp}) wrote {fp.getvalue()!r}, format gives {e!r}")
                    res.count("print_calls")
            # the style table itself: in every style the connectors for a *last* sibling (leaf / with children) share
            # their corner glyph, the ones for a non-last sibling share theirs, and (unless the style is made of
            # blanks only) the two glyphs differ - otherwise a prefix would not tell the last-sibling status
            if start == -1 and variant == "default":
                for sname2, st in CONNECTORS.items():
                    if len(st) == 6:
                        s0, s1, s2, s3, s4, s5 = st
                        lead = lambda x: x.lstrip()[:1]
                        if lead(s2) != lead(s4) or lead(s3) != lead(s5):
                            bad.append(f"style table entry {sname2!r}: with-children connectors {s4!r}/{s5!r} do not share the corner glyphs of {s2!r}/{s3!r}")
                        if len({len(x) for x in (s2, s3, s4, s5)}) != 1 or len(s0) != len(s1):
                            bad.append(f"style table entry {sname2!r}: connector widths differ")
                    if len(st) in (4, 6) and st[2].strip() and st[2] == st[3]:
                        bad.append(f"style table entry {sname2!r}: last and non-last connectors are identical")
                res.count("style_table_checks")
            # an emptied tree (filled, then all nodes removed) renders like a new empty tree
            if start == -1 and variant == "notitle" and rendered:
                te = type(t)("E")
                xs = [te.add("x", **({"kind": "k"} if typed else {})) for _ in range(1)]
                xs[0].add("y", **({"kind": "k"} if typed else {}))
                if case.get("f", "").count("(") % 2:
                    te.clear()
                else:
                    xs[0].remove()
                for kwp, expd in (({"title": False}, ""), ({"style": "list"}, ""), ({"title": "T"}, "T"), ({"title": False, "style": "ascii32"}, "")):
                    g = attempt(lambda: te.format(**kwp))
                    if g != expd:
                        bad.append(f"emptied tree: format({kwp}) gives {g!r}, expected {expd!r}")
                res.count("emptied_tree_formats")
            # state over time: the same tree formatted again after structural changes that remove nothing (a node appended
            # behind the former last top node, a branch moved to another level) - the second text describes the new shape
            if start == -1 and variant == "notitle" and rendered:
                kwk = {"kind": "k"} if typed else {}
                steps = [("append a top node", lambda: t.add("zz-late", **kwk)),
                         ("prepend below the first top node", lambda: list(t.children)[0].prepend_child("zz-early", **kwk))]
                movers = [x for x in rendered if list(x.children) and x.parent is not None and x.parent.parent is not None or (x.depth() >= 2)]
                if movers:
                    steps.append(("move a deep node to the top, first", lambda: movers[-1].move_to(t, before=True)))
                if len(list(t.children)) >= 2:
                    steps.append(("move the first top node to the end", lambda: list(t.children)[0].move_to(t)))
                for what, op in steps:
                    if isinstance(attempt(op), tuple):
                        res.count("format_after_change_refused")
                        continue
                    for stn in ("round43", "ascii32", "custom4"):
                        st = list(CONNECTORS[stn]) if stn in CONNECTORS else CUSTOM4
                        g = attempt(lambda: t.format(repr=tok, title=False, style=stn if stn in CONNECTORS else tuple(CUSTOM4)))
                        e = "\n".join(p_ + r_ for p_, r_ in expected_lines(None, st, tok, list(t.children)))
                        res.count("formats_after_change")
                        if g != e:
                            bad.append(f"format(style={stn}) after '{what}' on a tree that was formatted before: got {g!r}, expected {e!r}")
            # invalid style
            g = attempt(lambda: t.format(style="nosuchstyle"))
            if not (isinstance(g, tuple) and g[1] == "ValueError"):
                bad.append(f"unknown style name accepted: {g!r}")
            if rendered:
                g = attempt(lambda: t.format(style=("a", "b", "c")))
                if not (isinstance(g, tuple) and g[1] == "ValueError"):
                    bad.append(f"3-tuple style accepted: {g!r}")
    except CaseTimeout:
        res.inconc("case watchdog fired")
        return
    except Exception:
        note_exc(res, bad, "exception escaped from the library: ")
    if bad:
        res.violation(case, "; ".join(bad[:2]), n_bad=len(bad))


NSHARDS = 16


def variants_for(start):
    return ["default", "notitle", "text"] if start == -1 else ["self", "noself"]


def shards(tier, seed):
    bound = 6 if tier == "quick" else 8
    out = [{"name": f"enum{i}", "kind": "enum", "i": i, "bound": bound, "budget_s": 150 if tier == "quick" else 5400}
           for i in range(NSHARDS)]
    out += [{"name": f"rand{i}", "kind": "rand", "i": i, "count": 3 if tier == "quick" else 500,
             "budget_s": 90 if tier == "quick" else 3600} for i in range(NSHARDS)]
    return out


def run_shard(spec, res):
    seed = spec["seed"]
    if spec["kind"] == "enum":
        k = 0
        for n in range(0, spec["bound"] + 1):
            for f in gen.forests(n):
                k += 1
                if k % NSHARDS != spec["i"]:
                    continue
                for cls in (["plain", "typed"] if n <= 4 else ["plain"]):
                    for start in [-1] + list(range(n)):
                        for v in variants_for(start):
                            run_case({"cls": cls, "f": gen.code(f), "start": start, "variant": v}, res)
                            if n >= 2 and n <= 5 and cls == "plain":
                                run_case({"cls": cls, "f": gen.code(f), "start": start, "variant": v, "lab": "eqsib"}, res)
                            if n >= 3 and n <= 6:
                                run_case({"cls": cls, "f": gen.code(f), "start": start, "variant": v, "lab": "clones", "pseed": k % 3}, res)
                            if 2 <= n <= 5 and (k + start) % 3 == 0:
                                run_case({"cls": cls, "f": gen.code(f), "start": start, "variant": v, "ext": True}, res)
                            if 1 <= n <= 5 and (k // NSHARDS + start) % 2 == 0:
                                run_case({"cls": cls, "f": gen.code(f), "start": start, "variant": v, "prelude": True, "pseed": k}, res)
                if res.expired():
                    res.count("exhaustive_cut")
                    res.inconc("enumeration cut by time budget")
                    return
    else:
        rng = rng_for(seed, "c16-rand", spec["i"])
        for j in range(spec["count"]):
            f = gen.random_forest(rng, rng.randint(6, 14))
            n = gen.size(f)
            for start in [-1] + rng.sample(range(n), min(n, 4)):
                for v in variants_for(start):
                    run_case({"cls": rng.choice(["plain", "typed"]), "f": gen.code(f), "start": start, "variant": v,
                              "lab": rng.choice(["uniq", "eqsib", "clones", "clones"]), "ext": rng.random() < 0.3, "prelude": rng.random() < 0.4, "pseed": rng.randrange(10**6)}, res)
            if res.expired():
                break


def summarize(total):
    return {"styles_covered": sorted(k[6:] for k in total.counters if k.startswith("style:"))}
