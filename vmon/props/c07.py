"""C07 - copies are faithful to the source and independent of it.

Monitor: before/after snapshots + interference test.  For every copy route the copied
branch must hold the *same data objects* (identity) under the same data_ids and kinds in
the same order, the source's identity snapshot must be unchanged, and mutations applied
afterwards to either side must leave the other side's snapshot unchanged.
"""

from __future__ import annotations

from .. import gen
from ..core import CaseTimeout, case_deadline, rng_for, short_tb, note_exc

PROP = "C07"
LEVEL = "exploration"
RULE = ("case = (seed, route, tree class); the seed determines source forest (<= 12 nodes, clones, explicit data_ids, kinds), "
        "source node, target (foreign tree or a node of the same tree outside the source branch, or inside it for deep "
        "single-node copies), position `before` and deep flag; routes: Tree.copy, Node.copy(+/-self), copy_to(+/-self), "
        "Tree.copy_to, add(node), add(tree); after the faithfulness check a mutation script runs on one side while the "
        "other side's snapshot is compared, then vice versa; non-trivial = copied branch >= 3 nodes; distinct by case")
ASSUMPTIONS = [
    "meta of copied nodes is not compared (unspecified)",
    "same-tree copies are clones of their source: set_data(with_clones=True) is not used in the interference script there",
]
MECH = ["nutree.node:Node.add_child", "nutree.node:Node._add_nodes", "nutree.node:Node._add_from", "nutree.typed_tree:TypedNode._add_from",
        "nutree.typed_tree:TypedNode.add_child", "nutree.node:Node.copy", "nutree.node:Node.copy_to", "nutree.tree:Tree.copy",
        "nutree.tree:Tree.copy_to"]
MIN_NONTRIVIAL = {"quick": 4000, "thorough": 100000}
ROUTES = ["tree_copy", "node_copy_self", "node_copy_noself", "copy_to_self", "copy_to_noself", "tree_copy_to", "add_node", "add_tree",
          "add_node_into_own_branch"]
KNOWN_KIND = "typed.copied-top-node-gets-default-kind"


def make_tree(rng, typed, name, nmax=12, nmin=0, subclass=False, hook=False):
    from nutree import Tree
    from nutree.typed_tree import TypedTree

    if subclass:
        class SubTree(Tree):
            """A user subclass (overrides the id rule with an equivalent one)."""

            def calc_data_id(self, data):
                return hash(data)

        class SubTypedTree(TypedTree):
            def calc_data_id(self, data):
                return hash(data)

        Tree, TypedTree = SubTree, SubTypedTree
        if rng.random() < 0.5:
            X = gen.ext_classes()  # node class of its own (always falsy, own `name`), DEFAULT_CHILD_TYPE = "kid"
            Tree, TypedTree = X["XTree"], X["XTypedTree"]
    n = rng.randint(nmin, nmax)
    f = gen.random_forest(rng, n)
    par = gen.parents(f)
    t = (TypedTree if typed else Tree)(name)
    pool = [[x] for x in "abcdefgh"]  # distinct list objects are unhashable -> use tuples holding a marker object
    datas = {}
    labs, ids = [], []
    mode = rng.choice(["clones", "clones", "ids", "uniq"])
    # how a label becomes a data object: the string itself / a fresh tuple (equal to, but not the same object as, the tuple
    # another tree holds for that label) / an object on a tree that forwards attribute access to it
    wrap = rng.choice(["str", "str", "tuple", "fwd"]) if not typed else rng.choice(["str", "str", "tuple"])
    if wrap == "fwd" and not subclass:
        t = Tree(name, forward_attrs=True, calc_data_id=lambda tree, d: hash(d.key) if isinstance(d, _Fwd) else hash(d))
    rule = hash
    if hook and not subclass and wrap == "str":
        # this tree has an id rule of its own (another one than the tree it exchanges copies with): copies carry the ids of
        # their *source*, whatever the rule of the tree they arrive in says
        rule = lambda lab, _n=name: f"hk:{_n}:{lab}"  # noqa: E731
        t = (TypedTree if typed else Tree)(name, calc_data_id=lambda tree, d, _n=name: f"hk:{_n}:{d}")
    for i in range(n):
        used = {ids[j] for j in range(i) if par[j] == par[i]}
        for _ in range(60):
            if mode == "uniq":
                lab, did = f"{name}{i}", None
            else:
                lab = rng.choice("abcde")
                did = rng.choice([None, None, "X", "Y", 7, lab + "_id", 0, ""]) if mode == "ids" else None
            eff = rule(lab) if did is None else did
            if eff not in used:
                break
        else:
            lab, did, eff = f"{name}{i}", None, rule(f"{name}{i}")
        labs.append(lab)
        ids.append(eff)
    # data objects: str subclasses instances would break hash equality; use plain str but *distinct objects* per clone group
    objs = {}

    def label(i):
        key = (labs[i], ids[i])
        if key not in objs:
            if wrap == "tuple":
                objs[key] = tuple([labs[i]])
            elif wrap == "fwd" and not subclass:
                objs[key] = _Fwd(labs[i])
            else:
                objs[key] = "".join(labs[i])  # may be interned; identity of data objects is still compared
        return objs[key]

    kinds = [rng.choice(["ka", "kb", "child"]) for _ in range(n)]
    # some nodes carry a caller-defined node_id (unique within the tree); copies are new nodes with keys of their own
    base = rng.choice([5000, 70000])
    nids = [base + i if rng.random() < 0.3 else None for i in range(n)]
    nodes = gen.build(t, f, label, kind=(lambda i: kinds[i]) if typed else None,
                      data_id=lambda i: None if ids[i] == rule(labs[i]) else ids[i], node_id=lambda i: nids[i])
    for nd in nodes:
        if rng.random() < 0.4:
            nd.set_meta("m0", rng.randrange(100))  # some source nodes carry metadata before they are copied
            if rng.random() < 0.5:
                nd.update_meta({"m1": "v"})
    return t, nodes


def _kind_of(node):
    """The kind of a typed node (None for plain nodes - also when attribute access is forwarded to data that has a `kind`)."""
    from nutree.typed_tree import TypedNode

    return node.kind if isinstance(node, TypedNode) else None


class _Fwd:
    """Data for trees with forward_attrs=True: attributes that resemble node attributes (`kind`, `name`)."""

    def __init__(self, key):
        self.key = key
        self.kind = "data-kind"
        self.name = f"name-of-{key}"

    def __hash__(self):
        return hash(self.key)

    def __eq__(self, other):
        return isinstance(other, _Fwd) and other.key == self.key

    def __repr__(self):
        return f"F({self.key})"


def ident(t):
    def rec(h):
        return [(id(c), id(c.data), c.data_id, _kind_of(c), dict(c.meta) if c.meta else None, rec(c)) for c in h.children]

    return (t.count, rec(t))


def shape(nodes_or_holder, top_only=None):
    """(id(data), data_id, kind, children) - data compared by identity."""
    def one(c):
        return (id(c.data), c.data_id, _kind_of(c), [one(k) for k in c.children])

    return [one(c) for c in nodes_or_holder]


def default_top_kinds(sh, default="child"):
    """defect model: the top nodes of the copy carry the default kind."""
    return [(d, i, default, k) for d, i, _, k in sh]


def mutate_script(rng, nodes, same_tree):
    """Mutations applied to a list of nodes of one side."""
    for nd in nodes:
        try:
            r = rng.random()
            if nd._tree is None:
                continue
            if r < 0.25:
                nd.add(f"extra-{rng.randrange(10**6)}", **({"kind": "kx"} if _kind_of(nd) is not None else {}))
            elif r < 0.4 and nd.children:
                nd.children[0].remove()
            elif r < 0.55 and len(nd.children) > 1:
                nd.sort_children(key=lambda x: str(x.data), reverse=True)
            elif r < 0.7:
                rng.choice([lambda: nd.set_meta("m", rng.random()), lambda: nd.set_meta("m0", "changed"),
                            lambda: nd.update_meta({"m1": "changed", "m2": 1}), lambda: nd.clear_meta("m0"), lambda: nd.clear_meta()])()
            elif r < 0.85:
                if same_tree:
                    if not nd.is_clone():
                        nd.set_data(f"renamed-{rng.randrange(10**6)}")
                else:
                    nd.set_data(f"renamed-{rng.randrange(10**6)}", with_clones=True)
            else:
                nd.remove_children()
        except Exception:
            pass  # refusals are fine here; only visibility on the other side matters


def run_case(case, res):
    rng = rng_for(case["seed"], "c07", case["route"], case["typed"])
    typed = case["typed"]
    route = case["route"]
    bad = []
    known = False
    try:
        with case_deadline(60):
            src_t, src_nodes = make_tree(rng, typed, "s", nmin=1, hook=rng.random() < 0.15)
            # the target may belong to a user subclass of the tree class (the source is of the base class)
            sub = route in ("tree_copy_to", "copy_to_self", "copy_to_noself", "add_tree", "add_node") and rng.random() < 0.3
            other_t, other_nodes = make_tree(rng, typed, "o", nmax=6, subclass=sub, hook=rng.random() < 0.3)
            if sub:
                res.count("subclass_targets")
            src = rng.choice(src_nodes)
            branch = [src] + list(src)
            same_tree = False
            before_src = ident(src_t)
            before_other = ident(other_t)
            kind_less_top = False

            def pick_target(prefer_foreign=None):
                nonlocal same_tree
                outside = [x for x in src_nodes if x is not src and not x.is_descendant_of(src)]
                if (prefer_foreign is None and rng.random() < 0.5) or prefer_foreign or not outside:
                    same_tree = False
                    return rng.choice(other_nodes + [other_t])
                same_tree = True
                return rng.choice(outside + [src_t])

            def pick_before(target):
                kids = list(target.children)
                opts = [None, None, True, False]
                if kids:
                    opts += [rng.randrange(len(kids)), rng.choice(kids), kids[0], kids[-1], -rng.randint(1, len(kids))]
                return rng.choice(opts)

            def kids_of(x):
                return list(x.children)

            def expected_position(kids_before, before, count):
                if before is None or before is False:
                    return len(kids_before)
                if before is True:
                    return 0
                if isinstance(before, int):
                    return before if before >= 0 else len(kids_before) + before  # "-1": before the last child
                return next(i for i, c in enumerate(kids_before) if c is before)

            exp = None
            top_kind_override = None
            got_nodes = None
            target = None
            copied_sources = None
            if rng.random() < 0.35 and len(src_nodes) >= 2:
                # a copy attempt that must be refused (illegal position) comes first: it may not leave anything behind
                victim_t = rng.choice([x for x in src_nodes if x is not src] + [src_t])
                wrong = src  # `before` must be a child of the target; src is not a child of victim_t unless it is its parent
                if not any(c is wrong for c in victim_t.children):
                    try:
                        rng.choice([lambda: victim_t.add(src, before=wrong, **({"kind": "kz"} if typed else {})),
                                    lambda: src.copy_to(victim_t, before=wrong),
                                    lambda: victim_t.add(src, before="garbage", **({"kind": "kz"} if typed else {}))])()
                        res.count("refused_attempt_not_refused")
                    except Exception:
                        res.count("refused_attempts_first")
                    if ident(src_t) != before_src:
                        bad.append("a copy attempt refused for its illegal position changed the source tree")
            if route == "tree_copy":
                cp = src_t.copy()
                if type(cp) is not type(src_t):
                    bad.append(f"Tree.copy() returned {type(cp).__name__} for a {type(src_t).__name__}")
                got_nodes = list(cp.children)
                copied_sources = list(src_t.children)
                copy_side_tree = cp
            elif route in ("node_copy_self", "node_copy_noself"):
                add_self = route == "node_copy_self"
                cp = src.copy(add_self=add_self)
                if type(cp) is not type(src_t):
                    bad.append(f"Node.copy() returned {type(cp).__name__} for a node of a {type(src_t).__name__}")
                got_nodes = list(cp.children)
                copied_sources = [src] if add_self else list(src.children)
                kind_less_top = add_self
                copy_side_tree = cp
            elif route in ("copy_to_self", "add_node"):
                target = pick_target()
                deep = rng.random() < 0.6
                before = pick_before(target)
                kb = kids_of(target)
                collide = any(c.data_id == src.data_id for c in kb)
                try:
                    if route == "copy_to_self":
                        new = src.copy_to(target, before=before, deep=deep)
                    elif hasattr(target, "append_child") and rng.random() < 0.35 and (not typed or kb):
                        # the shortcut routes: at either end, or relative to a child of the target (typed trees: relative to
                        # a child only - the copy takes the anchor's kind and sits next to it whatever the neighbours' kinds)
                        anchor = rng.choice(kb) if kb and (typed or rng.random() < 0.6) else None
                        if anchor is not None:
                            which = rng.choice(["prepend_sibling", "append_sibling"])
                            i = next(j for j, c in enumerate(kb) if c is anchor)
                            before = anchor if which == "prepend_sibling" else (kb[i + 1] if i + 1 < len(kb) else None)
                            new = getattr(anchor, which)(src, deep=deep)
                            if typed:
                                top_kind_override = anchor.kind  # documented: "a new node of same kind" as the anchor
                        else:
                            which = rng.choice(["append_child", "prepend_child"])
                            before = None if which == "append_child" else True
                            new = getattr(target, which)(src, deep=deep)
                        res.count(f"add_node_via:{which}")
                    else:
                        new = target.add(src, before=before, deep=deep if rng.random() < 0.8 else (deep or None))
                except Exception as e:
                    from nutree import UniqueConstraintError

                    if collide and isinstance(e, UniqueConstraintError):
                        res.count("route_refused_uniqueness")
                        res.case(case, nontrivial=False)
                        if ident(src_t) != before_src or ident(other_t) != before_other:
                            res.violation(case, "refused copy changed a tree")
                        return
                    raise
                if collide:
                    bad.append("copy next to a sibling with the same data_id was not refused")
                ka = kids_of(target)
                pos = expected_position(kb, before, 1)
                if [id(c) for c in ka] != [id(c) for c in kb[:pos]] + [id(new)] + [id(c) for c in kb[pos:]]:
                    bad.append(f"copy not placed at the position before={before!r} asks for")
                got_nodes = [new]
                copied_sources = [src]
                if not deep:
                    copied_sources = None
                    exp = [(id(src.data), src.data_id, _kind_of(src), [])]
                kind_less_top = True
                copy_side_tree = new.tree
            elif route == "add_node_into_own_branch":
                # deep copy of a branch to a target inside that branch: source gains exactly the new branch
                inside = [src] + list(src)
                target = rng.choice(inside)
                same_tree = True
                snap = shape([src])
                if any(c.data_id == src.data_id for c in target.children):
                    res.case(case, nontrivial=False)
                    return
                # ... at any position of the target's child list (the copy is not necessarily the last child)
                own_before = rng.choice([None, None, True, 0, -1] + list(target.children)[:2]) if target.children else rng.choice([None, True])
                new = target.add(src, deep=True, before=own_before) if own_before is not None else target.add(src, deep=True)
                got_nodes = [new]
                exp = snap
                copied_sources = None
                kind_less_top = True
                copy_side_tree = src_t
                if shape([new]) != snap and not typed:
                    bad.append(f"deep copy into the own branch (before={own_before!r}) is not the branch as it was before the call: "
                               f"{describe([new])}")
                # source must be unchanged except for the new branch
                new.remove()
                if ident(src_t) != before_src:
                    bad.append("deep copy into the own branch changed the source beyond adding the new branch")
                res.case(case, nontrivial=len(branch) >= 3)
                if shape([new]) != exp and False:
                    pass
                # (faithfulness is compared below on a fresh copy)
                new = target.add(src, deep=True)
                got_nodes = [new]
            elif route in ("copy_to_noself", "tree_copy_to", "add_tree"):
                if route == "copy_to_noself":
                    target = pick_target()
                    sources = list(src.children)
                    holder_call = lambda deep: src.copy_to(target, add_self=False, deep=deep)
                    deep = rng.random() < 0.6
                    before = None
                elif route == "tree_copy_to":
                    target = rng.choice(other_nodes + [other_t])
                    same_tree = False
                    sources = list(src_t.children)
                    deep = rng.choice([True, True, False])
                    holder_call = lambda deep: src_t.copy_to(target, deep=deep)
                    before = None
                else:
                    target = rng.choice(other_nodes + [other_t])
                    same_tree = False
                    sources = list(src_t.children)
                    deep = rng.choice([None, True, False])
                    before = pick_before(target)
                    meth = rng.choice(["add", "add_child", "append_child", "prepend_child"])
                    if meth in ("append_child", "prepend_child") and (not hasattr(target, "append_child") or typed):
                        meth = "add"
                    if meth == "append_child":
                        before = None
                        holder_call = lambda deep: target.append_child(src_t, **({} if deep is None else {"deep": deep}))
                    elif meth == "prepend_child":
                        before = True
                        holder_call = lambda deep: target.prepend_child(src_t, **({} if deep is None else {"deep": deep}))
                    else:
                        holder_call = lambda deep: getattr(target, meth)(src_t, before=before, deep=deep)
                    res.count(f"add_tree_via:{meth}")
                kb = kids_of(target)
                if route == "add_tree" and rng.random() < 0.2:
                    # a tree without nodes has nothing to copy: whatever the position, the target keeps its children
                    empty = type(src_t)("empty")
                    try:
                        getattr(target, "add")(empty, before=before, deep=deep)
                    except Exception:
                        res.count("empty_tree_add_raised")
                    else:
                        res.count("empty_tree_adds")
                    if [id(c) for c in kids_of(target)] != [id(c) for c in kb] or ident(other_t) != before_other:
                        bad.append(f"adding an empty tree (before={before!r}) changed the target")
                ids_new = [s.data_id for s in sources]
                collide = any(c.data_id in ids_new for c in kb)
                if not sources:
                    res.case(case, nontrivial=False)
                    return
                try:
                    holder_call(deep)
                except Exception as e:
                    from nutree import UniqueConstraintError

                    if collide and isinstance(e, UniqueConstraintError):
                        res.count("route_refused_uniqueness")
                        res.case(case, nontrivial=False)
                        if ident(src_t) != before_src or ident(other_t) != before_other:
                            res.violation(case, f"refused {route} changed a tree (partial copy)")
                        return
                    raise
                if collide:
                    bad.append(f"{route}: copy next to a sibling with the same data_id was not refused")
                ka = kids_of(target)
                pos = expected_position(kb, before, len(sources))
                news = ka[pos:pos + len(sources)]
                if [id(c) for c in ka[:pos]] + [id(c) for c in ka[pos + len(sources):]] != [id(c) for c in kb]:
                    bad.append(f"{route}: existing children of the target were disturbed (before={before!r})")
                got_nodes = news
                eff_deep = True if (deep is None and route == "add_tree") else bool(deep)
                if eff_deep:
                    copied_sources = sources
                else:
                    copied_sources = None
                    exp = [(id(s.data), s.data_id, _kind_of(s), []) for s in sources]
                kind_less_top = True
                copy_side_tree = target.tree if hasattr(target, "tree") else target
                branch = [b for s in sources for b in [s] + list(s)]
            else:
                raise KeyError(route)

            res.count(f"route:{route}:{'typed' if typed else 'plain'}")
            if route != "add_node_into_own_branch":
                res.case(case, nontrivial=len(branch) >= 3)
            if exp is None:
                exp = shape(copied_sources)
            if top_kind_override is not None:
                exp = default_top_kinds(exp, top_kind_override)
                kind_less_top = False
            got = shape(got_nodes)
            # new node objects
            src_ids = {id(x) for x in src_nodes} | {id(x) for x in other_nodes}
            fresh = True
            for g in got_nodes:
                for x in [g] + list(g):
                    if id(x) in src_ids:
                        fresh = False
            if not fresh:
                bad.append("the copy contains node objects of the source")
            if got != exp:
                dk = getattr(got_nodes[0].tree, "DEFAULT_CHILD_TYPE", "child") if got_nodes else "child"
                if typed and kind_less_top and got == default_top_kinds(exp, dk):
                    known = True
                    res.known_finding(KNOWN_KIND, case)
                else:
                    bad.append(f"copy is not faithful: got {describe(got_nodes)}, source {describe(copied_sources) if copied_sources else exp}")
            # source unchanged
            if route != "add_node_into_own_branch":
                if same_tree:
                    # the target's child list legitimately changed; compare the source *branch* and order of all other lists
                    pass
                else:
                    if ident(src_t) != before_src:
                        bad.append("the source tree was changed by the copy")
            # for same-tree copies: source branch itself unchanged
            if same_tree and route != "add_node_into_own_branch":
                if not bad and got == exp:
                    # interference inside one tree: the copy is a clone of its source; structural edits and
                    # set_data(..., with_clones=False) on one side must not show on the other side
                    def branch_snap(tops):
                        return [(id(c), id(c.data), c.data_id, _kind_of(c), dict(c.meta) if c.meta else None, branch_snap(c.children)) for c in tops]

                    src_tops = copied_sources if copied_sources else [src]
                    s_before = branch_snap(src_tops)
                    for nd in [x for g in got_nodes for x in [g] + list(g)]:
                        try:
                            r = rng.random()
                            if nd._tree is None:
                                continue
                            if r < 0.3:
                                nd.add(f"extra-{rng.randrange(10**6)}", **({"kind": "kx"} if typed else {}))
                            elif r < 0.45 and nd.children:
                                nd.children[-1].remove()
                            elif r < 0.6:
                                nd.set_meta("m", 1)
                            elif r < 0.9:
                                nd.set_data(f"{nd.data}-edited", data_id=nd.data_id, with_clones=False)
                            else:
                                nd.sort_children(key=lambda x: str(x.data), reverse=True)
                        except Exception:
                            pass
                    if branch_snap(src_tops) != s_before:
                        bad.append("same-tree copy: an edit of the copy (with_clones=False) is visible in the source branch")
                    res.count("same_tree_interference_tests")
                    # undo for the source-unchanged check below: drop the copies again
                if not bad:
                    follow_up_copies(src_t, got_nodes, typed, res, bad, "after a copy inside the same tree")
                for g in got_nodes:
                    if g._tree is not None:
                        g.remove()
                if ident(src_t) != before_src:
                    bad.append("same-tree copy changed the source (beyond the added copy)")
                res.count("same_tree_copies")
            elif not bad and route != "add_node_into_own_branch":
                # ---------------- the same source copied a second time into the same foreign tree ------------------
                ct = copy_side_tree
                if ct is not None and ct is not src_t and route in ("copy_to_self", "add_node", "tree_copy_to", "add_tree", "copy_to_noself"):
                    try:
                        second = ct.add("second-target-" + str(rng.randrange(10**6)), **({"kind": "kx"} if typed else {}))
                        if route in ("copy_to_self", "add_node"):
                            second.add(src, deep=True)
                        elif route == "copy_to_noself":
                            src.copy_to(second, add_self=False, deep=True)
                        else:
                            second.add(src_t, deep=True)
                        res.count("second_copies_into_same_tree")
                        from .. import wf

                        e1, _ = wf.wf_graph(ct)
                        if e1:
                            bad.append("after copying the same source a second time into the same tree: " + "; ".join(e1[:2]))
                        second.remove()
                    except Exception:
                        from ..core import exc_in_library

                        if not exc_in_library():
                            raise
                        bad.append("copying the same source a second time into the same tree raised: " + short_tb(4))
                # ---------------- interference test ---------------------------------
                copy_nodes = [x for g in got_nodes for x in [g] + list(g)]
                snap_src = ident(src_t)
                mutate_script(rng, copy_nodes, False)
                if ident(src_t) != snap_src:
                    bad.append("a mutation of the copy is visible in the source")
                copy_tree = copy_side_tree
                snap_copy = ident(copy_tree)
                mutate_script(rng, list(src_nodes), False)
                if ident(copy_tree) != snap_copy:
                    bad.append("a mutation of the source is visible in the copy")
                res.count("interference_tests")
            if not bad and route != "add_node_into_own_branch":
                for tr in {id(x): x for x in (src_t, other_t, copy_side_tree) if x is not None and hasattr(x, "copy_to")}.values():
                    follow_up_copies(tr, [], typed, res, bad, "after the copy and the edits on both sides")
    except CaseTimeout:
        res.inconc("case watchdog fired")
        return
    except Exception:
        note_exc(res, bad, "exception escaped from the library: ")
    if bad:
        res.violation(case, "; ".join(bad[:2])[:2500], n_bad=len(bad))


def follow_up_copies(tree, new_nodes, typed, res, bad, when):
    """A copy made earlier must not influence later ones: a full copy of the tree, and a copy of the parent branch of each
    node the earlier call created, reproduce what is there *now*."""
    def same(got, exp, what):
        if got != exp:
            dk = getattr(tree, "DEFAULT_CHILD_TYPE", "child")
            if typed and got == default_top_kinds(exp, dk):
                return  # the listed kind finding (reported by the main comparison)
            bad.append(f"{when}: {what} is not faithful: {got!r} vs {exp!r}"[:1200])

    try:
        cp = tree.copy()
        res.count("follow_up_copies")
        same(shape(cp.children), shape(tree.children), "a later Tree.copy()")
        for g in new_nodes[:2]:
            par = g.parent
            if par is not None and g._tree is tree:
                cpb = par.copy()  # a new tree holding the branch of the parent
                same(shape(cpb.children), shape([par]), "a later Node.copy() of the parent of the earlier copy")
                other = type(tree)("elsewhere")
                hook = other.add("X", **({"kind": "kx"} if typed else {}))
                nn = hook.add(par, deep=True, **({"kind": par.kind} if typed else {}))
                same(shape([nn]), shape([par]), "a later deep add of that parent to another tree")
    except Exception:
        from ..core import exc_in_library

        if not exc_in_library():
            raise
        bad.append(f"{when}: a later copy raised: " + short_tb(4))


def describe(nodes):
    def one(c):
        return (c.data, c.data_id, _kind_of(c), [one(k) for k in c.children])

    return [one(c) for c in nodes] if nodes else None


NSHARDS = 16


def shards(tier, seed):
    cnt = 160 if tier == "quick" else 40000
    out = [{"name": f"rand{i}", "kind": "rand", "i": i, "count": cnt, "budget_s": 100 if tier == "quick" else 3600}
           for i in range(NSHARDS)]
    out.append({"name": "known-probe", "kind": "probe", "budget_s": 30})
    return out


def run_shard(spec, res):
    if spec["kind"] == "probe":
        for s in range(40):
            run_case({"seed": s, "route": "copy_to_self", "typed": True}, res)
        return
    rng = rng_for(spec["seed"], "c07-shard", spec["i"])
    for j in range(spec["count"]):
        s = rng.randrange(10**9)
        for route in ROUTES:
            run_case({"seed": s, "route": route, "typed": rng.random() < 0.4}, res)
        if res.expired():
            break


def summarize(total):
    return {"routes": {k[6:]: v for k, v in total.counters.items() if k.startswith("route:")}}
