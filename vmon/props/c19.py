"""C19 - load_tree_from_fs mirrors the directory it scanned.

Monitor: differential against an independent os.scandir/os.stat walk of generated
directory trees; plus round trip through FileSystemTree.save/load.
"""

from __future__ import annotations

import os
import shutil
import tempfile

from .. import gen
from ..core import CaseTimeout, case_deadline, rng_for, short_tb, note_exc

PROP = "C19"
LEVEL = "exploration"
RULE = ("case = seed of a generated directory tree (depth <= 5, empty folders, unicode and sort-sensitive names, file "
        "sizes 0..4kB, set mtimes) x sort in {True, False}; non-trivial = >= 6 entries, >= 2 levels, a folder holding "
        "both files and sub-folders; distinct by the generated listing")
ASSUMPTIONS = ["the reference walk uses os.scandir/os.stat on the same directory",
               "name order = Python str ordering of the entry names (Path ordering of siblings coincides with it)",
               "symlinks are not generated; the only special files are named pipes (never opened)"]
MECH = ["nutree.fs:load_tree_from_fs", "nutree.fs:FileSystemEntry.__init__", "nutree.fs:FileSystemTree.serialize_mapper",
        "nutree.fs:FileSystemTree.deserialize_mapper"]
MIN_NONTRIVIAL = {"quick": 60, "thorough": 1500}
NAMES = ["a", "B", "a.b", "a-b", "a b", "ä", "Z", "z", "10", "9", "_x", "日本", "a.txt", "A.txt", "b", "c.d.e", "é", "~t",
         "e\u0301", "A\u030a.txt", ".hidden", ".config", "..twodots", ".a.b", "win\\style.txt", "c:drive", "x\\"]  # decomposed forms: other names than their composed twins ("é")


def make_dir(rng, root):
    """Create a random directory tree below root; returns number of entries."""
    count = [0]

    def fill(path, depth):
        k = rng.choice([0, 1, 2, 3, 4, 6]) if depth else rng.choice([0, 1, 2, 3, 4, 5, 6, 1, 2, 3, 4, 5, 6])  # also an empty root folder
        names = rng.sample(NAMES, min(k, len(NAMES)))
        for nm in names:
            p = os.path.join(path, nm)
            count[0] += 1
            if rng.random() < (0.45 if depth < 4 else 0.0):
                os.mkdir(p)
                if rng.random() < 0.8:
                    fill(p, depth + 1)
            else:
                size = rng.choice([0, 1, 7, 100, 1024, 4096, rng.randint(0, 4096)])
                with open(p, "wb") as fp:
                    fp.write(b"x" * size)
                mt = 1_500_000_000 + rng.randint(0, 10**8) + (rng.random() if rng.random() < 0.65 else 0)  # also whole seconds
                if rng.random() < 0.06:
                    mt = -rng.randint(1, 10**8) - rng.choice([0, 0.5])  # last modified before 1970 (a negative time stamp is legal)
                elif rng.random() < 0.05:
                    mt = 0  # exactly the epoch: a time stamp like any other
                os.utime(p, (mt, mt))

    fill(root, 0)
    if rng.random() < 0.08:
        # an entry that is neither a file nor a directory (a named pipe): not part of the mirror
        subdirs = [root] + [os.path.join(dp, d) for dp, dn, _ in os.walk(root) for d in dn]
        try:
            os.mkfifo(os.path.join(rng.choice(subdirs), rng.choice(["zz-pipe", "a-pipe", "M"])))
        except OSError:
            pass
    if rng.random() < 0.06:
        # a round number of entries: the tree ends up with exactly 1000 (or 2000) nodes
        want = 1000 if rng.random() < 0.7 else 2000
        pad = os.path.join(root, "zz-pad")
        os.mkdir(pad)
        count[0] += 1
        i = 0
        while count[0] < want:
            with open(os.path.join(pad, f"p{i:04d}"), "wb") as fp:
                fp.write(b"")
            os.utime(os.path.join(pad, f"p{i:04d}"), (1_600_000_000, 1_600_000_000))
            count[0] += 1
            i += 1
    elif rng.random() < 0.08:
        # many folders (the count is not the depth): 320 sibling folders, some with a file, behind whatever else is there
        bulk = os.path.join(root, "zz-bulk")
        os.mkdir(bulk)
        count[0] += 1
        for i in range(320):
            d = os.path.join(bulk, f"d{i:03d}")
            os.mkdir(d)
            count[0] += 1
            if i % 7 == 0 or i > 300:
                with open(os.path.join(d, "f.txt"), "wb") as fp:
                    fp.write(b"y" * (i % 5))
                os.utime(os.path.join(d, "f.txt"), (1_600_000_000 + i, 1_600_000_000 + i))
                count[0] += 1
    if rng.random() < 0.4:
        # a second name for an existing file (hard link): still one node per directory entry
        files = [os.path.join(dp, f) for dp, dn, fn in os.walk(root) for f in fn]
        dirs = [dp for dp, dn, fn in os.walk(root)]
        if files:
            try:
                os.link(rng.choice(files), os.path.join(rng.choice(dirs), "hardlink-" + str(rng.randrange(1000))))
                count[0] += 1
            except OSError:
                pass
    if rng.random() < 0.3:
        try:
            with open(os.path.join(os.fsencode(root), b"caf\xe9-latin1.txt"), "wb") as fp:
                fp.write(b"not utf-8 name")
            count[0] += 1
        except OSError:
            pass
    return count[0]


def mutate_dir(rng, root):
    """Change the directory in place (grow a file, touch it, replace a file by a folder of the same name,
    add a file).  Returns a short description, or '' if nothing could be changed."""
    files, dirs = [], [root]
    for dp, dn, fn in os.walk(root):
        for f in fn:
            if os.path.isfile(os.path.join(dp, f)):  # (never open a named pipe)
                files.append(os.path.join(dp, f))
        for d in dn:
            dirs.append(os.path.join(dp, d))
    done = []
    if files:
        f = rng.choice(files)
        with open(f, "ab") as fp:
            fp.write(b"more-bytes")
        mt = 1_700_000_000 + rng.random() * 1000
        os.utime(f, (mt, mt))
        done.append("file grown and touched")
    if len(files) >= 2:
        f = files[0] if files[0] != (files and f) else files[1]
        os.unlink(f)
        os.mkdir(f)
        with open(os.path.join(f, "inner.txt"), "wb") as fp:
            fp.write(b"x")
        done.append("file replaced by a folder of the same name")
    d = rng.choice(dirs)
    with open(os.path.join(d, "zz-new-file"), "wb") as fp:
        fp.write(b"123")
    done.append("file added")
    return ", ".join(done)


def ref_walk(path, sort):
    """Independent listing: nested [(name, is_dir, size, mtime, children)]."""
    files, dirs = [], []
    with os.scandir(path) as it:
        entries = list(it)
    for e in entries:
        if e.is_dir(follow_symlinks=True):
            dirs.append((e.name, True, 0, None, ref_walk(e.path, sort)))
        elif e.is_file(follow_symlinks=True):
            st = os.stat(e.path)
            files.append((e.name, False, st.st_size, st.st_mtime, []))
    if sort:
        return sorted(files, key=lambda x: x[0]) + sorted(dirs, key=lambda x: x[0])
    return files + dirs  # order unspecified, compared as multiset per folder


def tree_listing(node_or_tree):
    out = []
    for c in node_or_tree.children:
        d = c.data
        out.append((d.name, bool(d.is_dir), d.size, d.mdate if not d.is_dir else None, tree_listing(c)))
    return out


def normalize(lst):
    return sorted(((n, d, s, m, normalize(k)) for n, d, s, m, k in lst), key=lambda x: (x[0], x[1]))


_LONG_LIVED_FILE_META = {}


def run_case(case, res):
    from nutree.fs import FileSystemTree, load_tree_from_fs

    rng = rng_for(case["seed"], "c19")
    tmp = tempfile.mkdtemp(prefix="vmon-c19-")
    bad = []
    try:
        root = os.path.join(tmp, "root")
        os.mkdir(root)
        n = make_dir(rng, root)
        sort = case["sort"]
        ref = ref_walk(root, sort)

        def depth(l):
            return 0 if not l else 1 + max(depth(x[4]) for x in l)

        mixed = any(True for _ in [0]) and _has_mixed(ref)
        res.case(case, nontrivial=n >= 6 and depth(ref) >= 2 and mixed, digest=[case["sort"], normalize(ref)])
        with case_deadline(60):
            t = load_tree_from_fs(root, sort=sort)
            res.count("scans")
            res.count("entries", n)
            if type(t) is not FileSystemTree:
                bad.append(f"returned {type(t).__name__}")
            got = tree_listing(t)
            if sort:
                if got != ref:
                    bad.append(f"sorted listing differs: got {got!r}, expected {ref!r}")
            else:
                if normalize(got) != normalize(ref):
                    bad.append(f"unsorted listing differs as multiset: got {normalize(got)!r}, expected {normalize(ref)!r}")
            for nd in t:
                d = nd.data
                if d.is_dir and d.size != 0:
                    bad.append("directory with size != 0")
                if not d.is_dir and not isinstance(d.size, int):
                    bad.append("file size is not int")
            # accepts str and Path
            from pathlib import Path

            t_p = load_tree_from_fs(Path(root), sort=True)
            if tree_listing(t_p) != ref_walk(root, True):
                bad.append("Path argument gives a different listing")
            # round trip through save/load with the class mappers
            pth = os.path.join(tmp, "tree.json")
            if case["seed"] % 3 == 0:
                # the snapshot file exists already (an earlier, much larger scan was saved under the same name)
                with open(pth, "wb") as _fp:
                    _fp.write(b'{"meta": {"$generator": "nutree/0"}, "nodes": [[0, {"n": "stale", "d": true}]]}\n' * 3000)
            t.save(pth, mapper=FileSystemTree.serialize_mapper)
            fm = _LONG_LIVED_FILE_META if case["seed"] % 2 else {}
            if case["seed"] % 2:
                # the caller's dict was used for another kind of file before (it still holds that file's header)
                from nutree import Tree as _PT

                other = _PT("other")
                other.add("x").add("y")
                other.save(os.path.join(tmp, "other.json"))
                _PT.load(os.path.join(tmp, "other.json"), file_meta=fm)
            t2 = FileSystemTree.load(pth, mapper=FileSystemTree.deserialize_mapper, file_meta=fm)
            res.count("round_trips")
            if type(t2) is not FileSystemTree:
                bad.append(f"load returned {type(t2).__name__}")
            if tree_listing(t2) != got:
                bad.append(f"save/load changed the listing: {tree_listing(t2)!r} vs {got!r}")
            # the mappers are class-level functions: the plain Tree class with these mappers reads the same listing
            from nutree import Tree as _Tree

            tb = _Tree.load(pth, mapper=FileSystemTree.deserialize_mapper)
            if tree_listing(tb) != got:
                bad.append(f"Tree.load(mapper=FileSystemTree.deserialize_mapper) changed the listing: {tree_listing(tb)!r} vs {got!r}")
            # sizes a larger file system would report (beyond 2**53: not representable as a double) survive the mappers:
            # the entry is added to the *loaded* tree, which then goes through the same save / load
            if case["seed"] % 4 == 0:
                from nutree.fs import FileSystemEntry

                big = rng.choice([2**53 + 1, 2**60 + 3, 2**63 - 1])
                t2.add(FileSystemEntry("zz-huge.bin", size=big, mdate=1_600_000_000.25))
                p_big = os.path.join(tmp, "big.json")
                t2.save(p_big, mapper=FileSystemTree.serialize_mapper)
                tb2 = FileSystemTree.load(p_big, mapper=FileSystemTree.deserialize_mapper)
                res.count("huge_sizes_round_tripped")
                if tree_listing(tb2) != tree_listing(t2):
                    bad.append(f"save/load changed an entry of {big} bytes: {tree_listing(tb2)[-1]!r}")
            # default mappers of the class (no mapper argument)
            t.save(pth)
            t3 = FileSystemTree.load(pth)
            if tree_listing(t3) != got:
                bad.append("save/load with the class's default mappers changed the listing")
            # compressed round trip
            t.save(pth, compression=True)
            # ... and the snapshot is moved before it is read (archived under another name)
            moved = os.path.join(tmp, "archive", "snapshot-2024.bak")
            os.makedirs(os.path.dirname(moved), exist_ok=True)
            os.replace(pth, moved)
            t4 = FileSystemTree.load(moved)
            if tree_listing(t4) != got:
                bad.append("compressed save/load (file renamed in between) changed the listing")
            # the directory changes and is scanned again in the same process: the second scan mirrors the *new* state
            t_late = load_tree_from_fs(root, sort=sort)  # returned before the change, read only after it
            changed = mutate_dir(rng, root)
            if changed:
                late = tree_listing(t_late)
                res.count("late_reads_after_change")
                if (late != ref) if sort else (normalize(late) != normalize(ref)):
                    bad.append(f"a tree returned before the directory changed ({changed}) and read afterwards does not carry the "
                               f"scanned state: got {late!r}, scanned {ref!r}")
                ref2 = ref_walk(root, sort)
                t5 = load_tree_from_fs(root, sort=sort)
                got5 = tree_listing(t5)
                res.count("rescans_after_change")
                if (got5 != ref2) if sort else (normalize(got5) != normalize(ref2)):
                    bad.append(f"second scan after the directory changed ({changed}) differs: got {got5!r}, expected {ref2!r}")
    except CaseTimeout:
        res.inconc("case watchdog fired")
    except Exception:
        note_exc(res, bad, "exception escaped from the library: ")
    finally:
        shutil.rmtree(tmp, ignore_errors=True)
    if bad:
        res.violation(case, "; ".join(bad[:2])[:3000], n_bad=len(bad))


def _has_mixed(lst):
    if any(x[1] for x in lst) and any(not x[1] for x in lst):
        return True
    return any(_has_mixed(x[4]) for x in lst)


NSHARDS = 16


def shards(tier, seed):
    cnt = 14 if tier == "quick" else 3000
    return [{"name": f"rand{i}", "kind": "rand", "i": i, "count": cnt, "budget_s": 90 if tier == "quick" else 3600}
            for i in range(NSHARDS)]


def run_shard(spec, res):
    rng = rng_for(spec["seed"], "c19-shard", spec["i"])
    for j in range(spec["count"]):
        s = rng.randrange(10**9)
        for sort in (True, False):
            run_case({"seed": s, "sort": sort}, res)
        if res.expired():
            break
