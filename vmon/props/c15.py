"""C15 - kind-aware queries of a typed tree equal filtering the child list by kind.

Monitor: cross-check against `[c for c in children if c.kind == k]`.
"""

from __future__ import annotations

import itertools

from .. import gen
from ..core import CaseTimeout, case_deadline, rng_for, short_tb, note_exc

PROP = "C15"
LEVEL = "exploration"
RULE = ("case = (forest shape, kind assignment over {a,b,c} per node, labeling in {unique, equal-comparing siblings}); "
        "every node (incl. top level) x every kind present or absent ('q') x any_kind on/off is queried; all "
        "assignments for forests up to the tier's full bound, sampled assignments up to the partial bound, random "
        "larger; non-trivial = >= 3 nodes, some parent with >= 2 children of which two share a kind or differ in kind")
ASSUMPTIONS = ["the reference is node.children filtered by node.kind, identity comparison"]
MECH = [
    "nutree.typed_tree:TypedNode.get_children", "nutree.typed_tree:TypedNode.first_child",
    "nutree.typed_tree:TypedNode.last_child", "nutree.typed_tree:TypedNode.has_children",
    "nutree.typed_tree:TypedNode.get_siblings", "nutree.typed_tree:TypedNode.first_sibling",
    "nutree.typed_tree:TypedNode.last_sibling", "nutree.typed_tree:TypedNode.prev_sibling",
    "nutree.typed_tree:TypedNode.next_sibling", "nutree.typed_tree:TypedNode.get_index",
    "nutree.typed_tree:TypedNode.is_first_sibling", "nutree.typed_tree:TypedNode.is_last_sibling",
    "nutree.typed_tree:TypedTree.first_child", "nutree.typed_tree:TypedTree.last_child",
    "nutree.typed_tree:TypedTree.iter_by_type",
]
MIN_NONTRIVIAL = {"quick": 1500, "thorough": 30000}
EXHAUSTIVE = {"quick": True, "thorough": True}
KINDS = "abc"


def ident(lst):
    return [id(x) for x in lst]


history_prelude = gen.history_prelude


class _KindStr(str):
    """A str subclass, as the members of a `class Rel(str, Enum)` are."""


def run_case(case, res):
    from nutree.typed_tree import ANY_KIND, TypedTree

    f = gen.decode(case["f"])
    kinds = case["kinds"]
    n = gen.size(f)
    t = gen.ext_classes()["XTypedTree"]("t") if case.get("ext") else TypedTree("t")
    # kinds are two-character strings built at run time, so that the objects stored in the
    # tree and the ones used in queries are equal but not identical
    pre = "k"
    sub = bool(case.get("kindsub"))  # kinds (stored and queried) are instances of a str subclass, like StrEnum members
    wrapk = (lambda v: _KindStr(v)) if sub else (lambda v: v)
    # `nfd`: two kinds that are the same text to a reader but different strings (decomposed / composed accent): kinds are
    # compared as the strings they are
    kname = (lambda ch: {"a": "e\u0301", "b": "\u00e9", "c": "", "q": "e", "o": "konly"}[ch]) if case.get("nfd") else \
        (lambda ch: "konly" if ch == "o" else "" if ch == "c" else pre + ch)
    mk = lambda ch: wrapk(kname(ch))  # the empty string is a legal kind too
    if case["lab"] == "uniq":
        nodes = gen.build(t, f, lambda i: f"n{i}", kind=lambda i: mk(kinds[i]))
    else:
        nodes = gen.build(t, f, lambda i: "x", kind=lambda i: mk(kinds[i]), data_id=lambda i: f"id{i}")
    if case.get("bycopy") and len(nodes) >= 2:
        # a kind that exists in this tree only on nodes that were created by adding an existing node
        for a, b in ((nodes[0], nodes[-1]), (nodes[-1], nodes[0])):
            try:
                a.add(b, kind=wrapk("konly"))
            except Exception:
                pass
        nodes = list(t)
    if case.get("prelude"):
        nodes = history_prelude(t, nodes, rng_for(case.get("pseed", 0), "c15-prelude", case["f"], case["kinds"]), True)
    holders = [t._root] + nodes
    nontrivial = n >= 3 and any(len(h.children) >= 2 for h in holders)
    res.case(case, nontrivial=nontrivial)
    bad = []

    def chk(name, got, exp, node):
        res.count("queries")
        if isinstance(exp, list):
            ok = isinstance(got, list) and ident(got) == ident(exp)
        elif exp is None or hasattr(exp, "_data_id"):
            ok = got is exp
        else:
            ok = got == exp and type(got) is type(exp)
        if not ok:
            i = next((k for k, o in enumerate(nodes) if o is node), "tree")
            bad.append(f"{name} of #{i}: got {got!r}, expected {exp!r}")

    def attempt(fn):
        try:
            return fn()
        except Exception as e:
            return ("EXC", type(e).__name__, str(e)[:80])

    def evaluate():
            sample = nodes
            if case.get("wide"):
                # a very wide sibling list: a handful of nodes at both ends, around the middle and around the kind changes
                sample = [nodes[k] for k in sorted({0, 1, 2, len(nodes) // 2, len(nodes) - 3, len(nodes) - 2, len(nodes) - 1})]
            for x in sample:
                sibs = list(x._parent.children) if x.parent is None else list(x.parent.children)
                if x.parent is None:
                    sibs = list(t.children)
                i = next(k for k, s in enumerate(sibs) if s is x)
                same = [s for s in sibs if s.kind == x.kind]
                j = next(k for k, s in enumerate(same) if s is x)
                K = list(x.children)
                for kch in KINDS + "qo":
                    kind = wrapk("".join(list(kname(kch))))
                    kk = [c for c in K if c.kind == kind]
                    chk(f"get_children({kind})", attempt(lambda: x.get_children(kind)), kk, x)
                    chk(f"first_child({kind})", attempt(lambda: x.first_child(kind)), kk[0] if kk else None, x)
                    chk(f"last_child({kind})", attempt(lambda: x.last_child(kind)), kk[-1] if kk else None, x)
                    chk(f"has_children({kind})", attempt(lambda: x.has_children(kind)), bool(kk), x)
                chk("get_children(ANY)", attempt(lambda: list(x.get_children(ANY_KIND))), K, x)
                chk("first_child(ANY)", attempt(lambda: x.first_child(ANY_KIND)), K[0] if K else None, x)
                chk("last_child(ANY)", attempt(lambda: x.last_child(ANY_KIND)), K[-1] if K else None, x)
                chk("has_children(ANY)", attempt(lambda: x.has_children(ANY_KIND)), bool(K), x)
                chk("get_siblings()", attempt(lambda: x.get_siblings()), [s for s in same if s is not x], x)
                chk("get_siblings(add_self)", attempt(lambda: x.get_siblings(add_self=True)), same, x)
                chk("get_siblings(any_kind)", attempt(lambda: x.get_siblings(any_kind=True)), [s for s in sibs if s is not x], x)
                chk("get_siblings(add_self,any_kind)", attempt(lambda: list(x.get_siblings(add_self=True, any_kind=True))), sibs, x)
                chk("first_sibling()", attempt(lambda: x.first_sibling()), same[0], x)
                chk("last_sibling()", attempt(lambda: x.last_sibling()), same[-1], x)
                chk("first_sibling(any_kind)", attempt(lambda: x.first_sibling(any_kind=True)), sibs[0], x)
                chk("last_sibling(any_kind)", attempt(lambda: x.last_sibling(any_kind=True)), sibs[-1], x)
                chk("prev_sibling()", attempt(lambda: x.prev_sibling()), same[j - 1] if j > 0 else None, x)
                chk("next_sibling()", attempt(lambda: x.next_sibling()), same[j + 1] if j + 1 < len(same) else None, x)
                chk("prev_sibling(any_kind)", attempt(lambda: x.prev_sibling(any_kind=True)), sibs[i - 1] if i > 0 else None, x)
                chk("next_sibling(any_kind)", attempt(lambda: x.next_sibling(any_kind=True)), sibs[i + 1] if i + 1 < len(sibs) else None, x)
                chk("get_index()", attempt(lambda: x.get_index()), j, x)
                chk("get_index(any_kind)", attempt(lambda: x.get_index(any_kind=True)), i, x)
                chk("is_first_sibling()", attempt(lambda: x.is_first_sibling()), j == 0, x)
                chk("is_last_sibling()", attempt(lambda: x.is_last_sibling()), j == len(same) - 1, x)
                chk("is_first_sibling(any_kind)", attempt(lambda: x.is_first_sibling(any_kind=True)), i == 0, x)
                chk("is_last_sibling(any_kind)", attempt(lambda: x.is_last_sibling(any_kind=True)), i == len(sibs) - 1, x)
            # lists handed out for nodes without (matching) children belong to the caller: using one as an
            # accumulator must not influence what other nodes report
            leaves = [x for x in nodes if not list(x.children)]
            if len(leaves) >= 2:
                sentinel = object()
                for q in ("ka", ANY_KIND):
                    lst = leaves[0].get_children(q)
                    if isinstance(lst, list) and not lst:
                        lst.append(sentinel)
                        other = leaves[1].get_children(q)
                        if other:
                            bad.append(f"get_children({q!r}) of a leaf reports {other!r} after a list returned for another leaf was extended")
                        if leaves[1].has_children(q) or leaves[0].has_children(q):
                            bad.append(f"has_children({q!r}) of a leaf is true after a returned empty list was extended")
                        if list(leaves[0].children) or list(leaves[1].children):
                            bad.append("children of a leaf changed after a returned empty list was extended")
                        res.count("leaf_list_mutations")
            top = list(t.children)
            allnodes = []

            def rec(lst):
                for c in lst:
                    allnodes.append(c)
                    rec(list(c.children))

            rec(top)
            for kch in KINDS + "qo":
                kind = wrapk("".join(list(kname(kch))))
                kk = [c for c in top if c.kind == kind]
                chk(f"tree.first_child({kind})", attempt(lambda: t.first_child(kind)), kk[0] if kk else None, None)
                chk(f"tree.last_child({kind})", attempt(lambda: t.last_child(kind)), kk[-1] if kk else None, None)
                chk(f"tree.iter_by_type({kind})", attempt(lambda: list(t.iter_by_type(kind))), [x for x in allnodes if x.kind == kind], None)
            chk("tree.first_child(ANY)", attempt(lambda: t.first_child(ANY_KIND)), top[0] if top else None, None)
            chk("tree.last_child(ANY)", attempt(lambda: t.last_child(ANY_KIND)), top[-1] if top else None, None)
            chk("tree.iter_by_type(ANY)", attempt(lambda: list(t.iter_by_type(ANY_KIND))), allnodes, None)
    try:
        with case_deadline(60):
            evaluate()
            if case.get("resort") and not bad:
                # the same queries after the child lists were re-ordered in place (answers computed earlier must
                # not be served again) and after a node was added and removed
                t.sort(key=lambda nd: str(nd.data_id), reverse=True)
                if nodes:
                    tmp = nodes[0].add("tmp-x", kind="ka")
                    tmp.remove()
                evaluate()
                res.count("re_evaluations_after_sort")
    except CaseTimeout:
        res.inconc("case watchdog fired")
        return
    except Exception:
        note_exc(res, bad, "exception escaped from the library: ")
    if bad:
        res.violation(case, "; ".join(bad[:3]), n_bad=len(bad))


NSHARDS = 16


def shards(tier, seed):
    full, part = (4, 6) if tier == "quick" else (6, 7)
    out = [{"name": f"enum{i}", "kind": "enum", "i": i, "full": full, "part": part,
            "budget_s": 120 if tier == "quick" else 3600} for i in range(NSHARDS)]
    out += [{"name": f"rand{i}", "kind": "rand", "i": i, "count": 30 if tier == "quick" else 15000,
             "budget_s": 60 if tier == "quick" else 3600} for i in range(NSHARDS)]
    return out


def run_shard(spec, res):
    seed = spec["seed"]
    if spec["kind"] == "enum":
        k = 0
        for n in range(0, spec["part"] + 1):
            for f in gen.forests(n):
                k += 1
                if k % NSHARDS != spec["i"]:
                    continue
                fc = gen.code(f)
                rng = rng_for(seed, "c15", fc)
                if n <= spec["full"]:
                    assigns = ["".join(a) for a in itertools.product(KINDS, repeat=n)]
                else:
                    assigns = ["".join(rng.choice(KINDS) for _ in range(n)) for _ in range(12)] + ["a" * n, "ab" * n]
                for ai, a in enumerate(assigns):
                    run_case({"f": fc, "kinds": a[:n], "lab": "uniq", **({"nfd": True} if ai % 4 == 1 else {})}, res)
                    if n >= 1 and ai % 3 == 0:
                        run_case({"f": fc, "kinds": a[:n], "lab": "uniq", "prelude": True, "pseed": ai}, res)
                    if n >= 2 and ai % 3 == 1:
                        run_case({"f": fc, "kinds": a[:n], "lab": "uniq", "resort": True}, res)
                    if n >= 2 and ai % 3 == 2:
                        run_case({"f": fc, "kinds": a[:n], "lab": "uniq", "kindsub": True, "ext": ai % 2 == 0, "bycopy": ai % 4 < 2}, res)
                for a in assigns[:: max(1, len(assigns) // 6)]:
                    run_case({"f": fc, "kinds": a[:n], "lab": "eqsib"}, res)
                if res.expired():
                    res.count("exhaustive_cut")
                    res.inconc("enumeration cut by time budget")
                    return
    else:
        rng = rng_for(seed, "c15-rand", spec["i"])
        if spec["i"] == 0:
            # width is not depth: one parent with 1500 children - long runs of another kind between two nodes of one kind
            W = 1500
            wide = [[] for _ in range(W)]
            kinds = ["b"] * W
            for k in (0, 1, W // 2, W - 2, W - 1):
                kinds[k] = "a"
            kinds[2] = "c"
            run_case({"f": gen.code(wide), "kinds": "".join(kinds), "lab": "uniq", "wide": True}, res)
        for j in range(spec["count"]):
            f = gen.random_forest(rng, rng.randint(7, 25))
            n = gen.size(f)
            run_case({"f": gen.code(f), "kinds": "".join(rng.choice(KINDS) for _ in range(n)), "lab": rng.choice(["uniq", "eqsib"]),
                      "prelude": rng.random() < 0.5, "pseed": rng.randrange(10**6), "resort": rng.random() < 0.5,
                      "kindsub": rng.random() < 0.3, "ext": rng.random() < 0.3, "bycopy": rng.random() < 0.3, "nfd": rng.random() < 0.25}, res)
            if res.expired():
                break
