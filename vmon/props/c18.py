"""C18 - snapshot operations honour the tree lock.

Monitor: event-order + snapshot-consistency monitor on an instrumented lock.

The tree's lock is wrapped by a logging proxy (try / blocked / acquired / released with a logical
clock; "blocked" is an observed event because the proxy first tries a non-blocking acquire).
Writers mutate only inside `with tree:` and stamp every node with the version they are
committing, so a snapshot that mixes versions or lacks nodes is torn.

Schedules (all steered by events, never by sleeps or deadlines):
  A  reader starts while a writer is inside its critical section at phase p of m mutations;
     the writer continues only after it has *observed* the reader blocked on the lock or returned.
  B  reader starts first and is paused inside one of its own callbacks (mapper / predicate);
     a writer then tries to commit; it continues when the writer is observed blocked or done.
  C  the owner thread nests `with tree:` and runs every snapshot operation inside (re-entrancy).
  F  a snapshot operation is ended by an exception raised in the user's callback (mapper / predicate) at its k-th call;
     afterwards the lock must be free (acquire/release counts of the ended thread, follow-up operations unblocked).
  G  an earlier save() is still in its output phase (slow target) while the owner, half-way through an update inside
     `with tree:`, calls a snapshot operation itself and a third thread reads: the reader may only see committed states.
  R  the reader is paused right after its last release of the tree lock (the operation may still be writing its output),
     a writer runs half a critical section, the reader goes on: the result is the committed state and the operation does
     not fail; also with DictWrapper data that the writer updates in place.
  D  a (nested) critical section is left through an exception (user Exception, BaseException, refused
     library call); once that thread has ended the event log must show the lock released as often as
     acquired, and readers then run every snapshot operation without finding the lock taken.
  S  stress: several writers and readers, tiny switch interval, seeded yield injection from
     sys.monitoring LINE events inside nutree frames.
Oracle: (i) writer bodies never overlap; (ii) schedule A: the reader acquires the tree lock only
after the writer's final release and returns after it; (iii) every snapshot equals one committed
state; (iv) no self-deadlock / exception in nested use.
"""

from __future__ import annotations

import io
import json
import os
import random
import re
import shutil
import sys
import tempfile
import threading
import time

from ..core import rng_for, short_tb

PROP = "C18"
LEVEL = "exploration"
RULE = ("case = one schedule point: (schedule A|B|C|D|F|G|R, snapshot operation, writer style in {relabel, rebuild, mixed}, writer "
        "phase p of m, nesting depth, number of readers; D: kind of exception that ends the critical section) or one stress run (seed, writers, readers, iterations); every "
        "(operation x style x phase) cell is enumerated; non-trivial = schedule with a writer phase strictly inside the "
        "critical section, schedule B or D, or a stress run with >= 1 observed blocking; distinct by case description")
ASSUMPTIONS = [
    "CPython GIL: interleavings finer than bytecode boundaries do not exist; the stress part samples, the schedule part enumerates",
    "a firing watchdog (20 s per schedule point) is INCONCLUSIVE, never a violation",
    "the lock proxy replaces tree._lock after construction; the library only calls acquire()/release() on it",
]
MECH = ["nutree.tree:Tree.__enter__", "nutree.tree:Tree.__exit__", "nutree.tree:Tree.copy", "nutree.tree:Tree.copy_to",
        "nutree.tree:Tree.to_dict_list", "nutree.tree:Tree.save", "nutree.dot:tree_to_dotfile"]
MIN_NONTRIVIAL = {"quick": 200, "thorough": 900}
MIN_COUNTERS = {"quick": {"blocked_events": 150, "snapshots_checked": 1000}, "thorough": {"blocked_events": 1500, "snapshots_checked": 20000}}

OPS = ["save_stream", "save_path", "save_zip", "copy", "filtered", "copy_pred", "copy_to", "copy_to_shallow", "to_dict_list", "to_dotfile", "to_dotfile_path", "with"]
OPS_WITH_CALLBACK = ["save_stream", "filtered", "copy_pred", "to_dict_list", "to_dotfile"]
STYLES = ["relabel", "rebuild", "mixed"]
G, C = 3, 3  # groups x children
WATCHDOG = 20.0


from ..locktrack import DeadlockDetected as SelfDeadlock  # raised by the observed lock instead of hanging


class Log:
    def __init__(self):
        self.mutex = threading.Lock()
        self.cond = threading.Condition(self.mutex)
        self.events = []

    def add(self, *ev):
        with self.cond:
            self.events.append((len(self.events),) + ev)
            self.cond.notify_all()

    def wait_for(self, pred, timeout=WATCHDOG):
        with self.cond:
            return self.cond.wait_for(lambda: pred(self.events), timeout)


class LockProxy:
    def __init__(self, inner, log, name="tree"):
        self.inner = inner
        self.log = log
        self.owner = None
        self.depth = 0
        self.name = name

    def acquire(self, blocking=True, timeout=-1):
        me = threading.get_ident()
        self.log.add("try", me, self.name)
        if not self.inner.acquire(False):
            if self.owner == me:
                self.log.add("self-deadlock", me, self.name)
                raise SelfDeadlock("the owning thread would block on its own lock (lock is not re-entrant)")
            if not blocking:
                return False
            self.log.add("blocked", me, self.name)
            if timeout is not None and timeout >= 0:
                # virtual time: a bounded wait may always expire while another thread is inside its critical section
                self.log.add("timed-out", me, self.name)
                time.sleep(0.001)
                return False
            self.inner.acquire()
        self.owner = me
        self.depth += 1
        self.log.add("acquired", me, self.name, self.depth)
        return True

    def release(self):
        me = threading.get_ident()
        self.depth -= 1
        d = self.depth
        if d <= 0:
            self.owner = None
        self.log.add("released", me, self.name, d)
        self.inner.release()

    __enter__ = acquire

    def __exit__(self, *a):
        self.release()


# ------------------------------------------------------------------------------------
# versioned tree
# ------------------------------------------------------------------------------------
def names():
    out = []
    for g in range(G):
        out.append(f"g{g}")
        for c in range(C):
            out.append(f"g{g}c{c}")
    return out


ALLNAMES = names()


TRACKED = {"n": 0}
TYPED = {"on": False}  # set per case: the shared tree is a TypedTree whose kinds change with the version


def build_tree(ver):
    from nutree import Tree
    from nutree.typed_tree import TypedTree

    if TYPED.get("fs"):
        from nutree.fs import FileSystemTree

        t = FileSystemTree("shared")
    else:
        t = (TypedTree if TYPED["on"] else Tree)("shared")
    fill(t, ver)
    return t


def _data(label):
    """the data object for a label: the label itself, or (file-system trees) an entry named like it"""
    if TYPED.get("fs"):
        from nutree.fs import FileSystemEntry

        return FileSystemEntry(label, size=len(label), mdate=1.5)
    return label


def _kw(ver):
    return {"kind": f"kind{ver}"} if TYPED["on"] else {}


def fill(t, ver, only_group=None, before=None):
    for g in range(G):
        if only_group is not None and g != only_group:
            continue
        top = t.add(_data(f"g{g}@v{ver}"), data_id=f"g{g}", before=before, **_kw(ver))
        for c in range(C):
            top.add(_data(f"g{g}c{c}@v{ver}"), data_id=f"g{g}c{c}", **_kw(ver))


def writer_steps(t, style, ver):
    """List of callables that together bring the tree from version ver to ver+1."""
    new = ver + 1
    steps = []
    if style == "relabel":
        def relabel(name):
            def f():
                n = t.find_first(data_id=name)
                n.set_data(_data(f"{name}@v{new}"), data_id=name)
            return f

        steps = [relabel(nm) for nm in ALLNAMES]
    elif style == "rebuild":
        steps.append(lambda: t.clear())
        for g in range(G):
            steps.append(lambda g=g: fill(t, new, only_group=g))
    else:  # mixed: remove the first group, relabel the rest, re-add the first group at the front
        steps.append(lambda: t.find_first(data_id="g0").remove())
        for nm in ALLNAMES:
            if not nm.startswith("g0"):
                def f(nm=nm):
                    n = t.find_first(data_id=nm)
                    n.set_data(_data(f"{nm}@v{new}"), data_id=nm)
                steps.append(f)
        steps.append(lambda: fill(t, new, only_group=0, before=True))
    return steps


def interleaving_signature(log, roles):
    """Order of the observable events with thread ids replaced by roles (writer/reader k)."""
    import hashlib

    seq = []
    for e in log.events:
        if e[1] == "try":
            continue
        seq.append((e[1], roles.get(e[2], "other")))
    return hashlib.blake2b(repr(seq).encode(), digest_size=6).hexdigest()


# ------------------------------------------------------------------------------------
# access monitor: "do not read the tree until the lock is released" observed directly.  Every read or write of a node's child
# list (the slot `Node._children`, which every traversal, copy and export has to go through) is attributed to the calling
# thread; an access to a node of the watched tree by a thread that does not own the tree lock, while another thread does, is
# a read inside somebody else's critical section - whatever the result of the operation looks like afterwards.
# ------------------------------------------------------------------------------------
ACCESS = {"installed": None, "tree": None, "threads": (), "foreign": [], "n": 0}


def install_access_monitor():
    if ACCESS["installed"] is not None:
        return ACCESS["installed"]
    from nutree.node import Node

    orig = Node.__dict__.get("_children")
    if orig is None or not hasattr(orig, "__get__") or not hasattr(orig, "__set__"):
        ACCESS["installed"] = False
        return False

    def note(obj, kind):
        tree = ACCESS["tree"]
        if tree is None:
            return
        try:
            if obj._tree is not tree:
                return
        except Exception:
            return
        me = threading.get_ident()
        if me not in ACCESS["threads"]:
            return
        ACCESS["n"] += 1
        owner = getattr(tree._lock, "_owner", None)
        if owner is not None and owner != me and len(ACCESS["foreign"]) < 20:
            import sys as _sys

            fr = _sys._getframe(2)
            chain = []
            while fr is not None and len(chain) < 4:
                if "nutree" in fr.f_code.co_filename:
                    chain.append(f"{os.path.basename(fr.f_code.co_filename)}:{fr.f_code.co_name}:{fr.f_lineno}")
                fr = fr.f_back
            ACCESS["foreign"].append((me, kind, " <- ".join(chain)))

    class _Watched:
        def __get__(self, obj, cls=None):
            if obj is None:
                return self
            note(obj, "read")
            return orig.__get__(obj, cls)

        def __set__(self, obj, value):
            note(obj, "write")
            orig.__set__(obj, value)

        def __delete__(self, obj):
            orig.__delete__(obj)

    Node._children = _Watched()
    ACCESS["installed"] = True
    return True


def watch_accesses(tree, thread_ids):
    ACCESS["tree"], ACCESS["threads"], ACCESS["foreign"], ACCESS["n"] = tree, tuple(thread_ids), [], 0


def attach_log(t, log):
    """Attaches the event log to the lock the library created for this tree (vmon/locktrack.py hands out tracking locks while
    nutree is imported and to nutree's modules afterwards), so that everything that holds a reference to that lock - e.g. a
    `threading.Condition` bound to it - is observed, too.  Fallback (lock of an unknown class): a logging proxy in front."""
    from .. import locktrack

    lk = t._lock
    if isinstance(lk, locktrack.Tracked):
        lk.log, lk.name = log, "tree"
        return lk
    t._lock = LockProxy(lk, log)
    return t._lock


def instrument(t, log):
    """Attaches the log and verifies that `with tree:` really goes through the observed lock."""
    if not hasattr(t, "_lock") or not hasattr(t._lock, "acquire"):
        return False
    TRACKED["n"] += type(t._lock).__name__ == "TrackedRLock"
    attach_log(t, log)
    n0 = len(log.events)
    with t:
        pass
    ok = any(e[1] == "acquired" for e in log.events[n0:]) and any(e[1] == "released" for e in log.events[n0:])
    return ok


class _TopOnly(list):
    """labels of a shallow snapshot: the complete answer is the list of top nodes"""


def labels_of(op, result):
    """Extract the list of node labels from a snapshot result."""
    if op in ("save_stream", "save_path", "save_zip"):
        doc = json.loads(result)
        out = []
        for pidx, data in doc["nodes"]:
            if TYPED.get("fs") and isinstance(data, dict):
                out.append(data.get("n"))
                continue
            out.append(data["s"] if isinstance(data, dict) and "s" in data else data.get("str") if isinstance(data, dict) else data)
        return out
    if op in ("copy", "filtered", "copy_pred", "copy_to", "copy_to_shallow", "with"):
        return result
    if op == "to_dict_list":
        out = []

        def rec(lst):
            for d in lst:
                out.append(d["data"])
                rec(d.get("children", []))

        rec(result)
        return out
    if op in ("to_dotfile", "to_dotfile_path"):
        return [m for m in re.findall(r'label="([^"]*)"', result) if "@v" in m]
    raise KeyError(op)


def check_snapshot(labels, allowed_versions):
    """Returns None if the labels form exactly one committed state, else a message."""
    top_only = isinstance(labels, _TopOnly)
    labels = [getattr(l, "name", l) if type(l).__name__ == "FileSystemEntry" else l for l in labels]
    if TYPED.get("fs"):
        # str(entry) / dict entries of the file-system mappers: pick the name out of the rendering
        labels = [(re.search(r"g\d(?:c\d)?@v\d+", l).group(0) if isinstance(l, str) and re.search(r"g\d(?:c\d)?@v\d+", l) else l) for l in labels]
    try:
        vers = {l.split("@v")[1] for l in labels}
        nms = sorted(l.split("@v")[0] for l in labels)
    except Exception:
        return f"unparsable snapshot {labels!r}"
    want_names = sorted(f"g{g}" for g in range(G)) if top_only else sorted(ALLNAMES)
    if nms != want_names:
        return f"snapshot holds {len(nms)} of {len(want_names)} nodes ({nms[:6]}...)"
    if len(vers) != 1:
        return f"snapshot mixes versions {sorted(vers)}: {labels}"
    v = int(next(iter(vers)))
    if allowed_versions is not None and v not in allowed_versions:
        return f"snapshot shows version {v}, committed/expected versions {sorted(allowed_versions)}"
    return None


class Hook:
    """Callback hook for schedule B: pauses the reader at its k-th callback invocation."""

    def __init__(self, k):
        self.k = k
        self.n = 0
        self.paused = threading.Event()
        self.resume = threading.Event()

    def hit(self):
        self.n += 1
        if self.k is not None and self.n == self.k:
            self.paused.set()
            self.resume.wait(WATCHDOG)


def run_op(op, t, tmpdir, hook=None, dst=None):
    """Runs one snapshot operation in the calling thread; returns the snapshot result.
    dst: for copy_to, a node of a destination tree that several threads copy into (each below a node of its own)."""
    from nutree import Tree

    def hit():
        if hook is not None:
            hook.hit()

    if op == "save_stream":
        fp = io.StringIO()
        if hook is not None:
            def mapper(node, data):
                hit()
                return data
            t.save(fp, mapper=mapper)
        else:
            t.save(fp)
        return fp.getvalue()
    if op == "save_path":
        pth = os.path.join(tmpdir, f"t{threading.get_ident()}.json")
        t.save(pth)
        with open(pth) as fp:
            return fp.read()
    if op == "save_zip":
        import zipfile

        pth = os.path.join(tmpdir, f"z{threading.get_ident()}.zip")
        t.save(pth, compression=True)
        with zipfile.ZipFile(pth) as zf:
            return zf.read(zf.namelist()[0]).decode("utf8")
    if op == "copy":
        return [n.data for n in t.copy()]
    if op in ("filtered", "copy_pred"):
        from nutree import SelectBranch

        def pred(n):
            hit()
            return SelectBranch()  # keeps whole branches: avoids the listed C08 duplicate finding

        r = t.filtered(pred) if op == "filtered" else t.copy(predicate=pred)
        return [n.data for n in r]
    if op == "copy_to":
        if dst is None:
            dst = type(t)("dst")
        t.copy_to(dst)
        return [n.data for n in dst]
    if op == "copy_to_shallow":
        if dst is None:
            dst = type(t)("dst")
        t.copy_to(dst, deep=False)  # the top nodes only - still a snapshot of one committed state
        return _TopOnly(n.data for n in dst)
    if op == "to_dict_list":
        if hook is not None:
            def mapper(node, data):
                hit()
                return data
            return t.to_dict_list(mapper=mapper)
        return t.to_dict_list()
    if op == "to_dotfile":
        fp = io.StringIO()
        if hook is not None:
            def nm(node, data):
                hit()
            t.to_dotfile(fp, node_mapper=nm)
        else:
            t.to_dotfile(fp)
        return fp.getvalue()
    if op == "to_dotfile_path":
        from pathlib import Path

        pth = os.path.join(tmpdir, f"d{threading.get_ident()}.gv")
        t.to_dotfile(pth if threading.get_ident() % 2 else Path(pth))
        with open(pth, encoding="utf8") as fp:
            return fp.read()
    if op == "with":
        with t:
            return [n.data for n in t]
    raise KeyError(op)


# ------------------------------------------------------------------------------------
# schedule A
# ------------------------------------------------------------------------------------
def schedule_A(case, res):
    op, style, phase, nest, nreaders = case["op"], case["style"], case["phase"], case["nest"], case["readers"]
    log = Log()
    t = build_tree(0)
    try:
        effective = instrument(t, log)
    except Exception as e:  # noqa: BLE001
        # an uncontended `with tree: pass` in a single thread raised: the lock is not usable at all
        res.violation(case, f"`with tree: pass` on a fresh tree, no other thread involved, raised {type(e).__name__}: {e}")
        return
    if not effective:
        if any(ev[1] == "released" for ev in log.events) and not any(ev[1] == "acquired" for ev in log.events):
            res.violation(case, "`with tree: pass` released the tree lock without having acquired it")
            return
        res.inconc("lock instrumentation is not effective: `with tree:` does not use tree._lock.acquire()/release()")
        return
    tmpdir = tempfile.mkdtemp(prefix="vmon-c18-")
    bad = []
    results = {}
    errors = []
    others = [build_tree(7) for _ in range(nreaders)]  # one per reader: they must not wait for each other
    slots = [None] * (nreaders + 1)
    if case.get("shared_dst"):
        # one destination tree for everybody: each thread copies below a node of its own.  The destination is not part of
        # the snapshot contract, but whatever an implementation does with it must not stop the owner from nesting
        shared = type(t)("shared-destination")
        slots = [shared.add(f"slot{i}", **({"kind": "slot"} if case.get("typed") else {})) for i in range(nreaders + 1)]
    go = threading.Event()
    steps = writer_steps(t, style, 0)
    m = len(steps)
    p = min(phase, m) if phase >= 0 else m // 2
    try:
        def reader(i):
            go.wait(WATCHDOG)
            me = threading.get_ident()
            log.add("call", me, op)
            try:
                if case.get("reader_holds_other"):
                    # the reader is inside the critical section of *another* tree: that must not exempt it from this tree's lock
                    with others[i]:
                        with others[i]:
                            results[i] = run_op(op, t, tmpdir, dst=slots[i])
                else:
                    results[i] = run_op(op, t, tmpdir, dst=slots[i])
            except Exception:
                errors.append("reader raised: " + short_tb(4))
            log.add("ret", me, op)

        threads = [threading.Thread(target=reader, args=(i,), daemon=True) for i in range(nreaders)]
        for th in threads:
            th.start()
        tids = [th.ident for th in threads]
        me = threading.get_ident()
        timed_out = False
        monitored = install_access_monitor() and isinstance(t._lock, __import__("vmon.locktrack", fromlist=["Tracked"]).Tracked)
        if monitored:
            watch_accesses(t, tids)  # the readers are still parked at `go`

        def body():
            nonlocal timed_out
            log.add("enter-body", me)
            for s in steps[:p]:
                s()
            go.set()

            # wait until every reader is blocked on the lock or has returned (observed events)
            def settled(events):
                st = {}
                for ev in events:
                    if ev[1] in ("blocked", "ret") and ev[2] in tids:
                        st[ev[2]] = ev[1]
                return all(tid in st for tid in tids)

            if not log.wait_for(settled):
                timed_out = True
            log.add("writer-observed", me)
            if case.get("owner_op"):
                # the owner itself calls the same snapshot operation (re-entrancy) while the readers are blocked on the lock;
                # the snapshot it gets is the intermediate state it has produced itself - only completion matters here
                run_op(op, t, tmpdir, dst=slots[-1])
                log.add("owner-op-done", me)
            for s in steps[p:]:
                s()
            log.add("leave-body", me)

        werr = []

        def writer_thread():
            nonlocal me
            me = threading.get_ident()
            try:
                if nest == 1:
                    with t:
                        body()
                else:
                    with t:
                        with t:
                            body()
            except Exception as e:
                werr.append(f"writer/owner thread raised {type(e).__name__}: {e}")

        wt = threading.Thread(target=writer_thread, daemon=True)
        wt.start()
        wt.join(WATCHDOG * 2)
        for th in threads:
            th.join(WATCHDOG)
        from .. import locktrack

        if locktrack.DEADLOCKS:
            bad.append("deadlock among the library's locks: " + locktrack.DEADLOCKS[0])
            del locktrack.DEADLOCKS[:]
        bad += werr
        if monitored:
            res.count("monitored_child_list_accesses", ACCESS["n"])
            res.count("schedules_under_access_monitor")
            for tid, kind, where in ACCESS["foreign"][:1]:
                bad.append(f"{op}: a reader thread touched the tree ({kind} of a node's child list in {where}) while another thread was inside "
                           f"`with tree:` - {len(ACCESS['foreign'])} such accesses before the lock was released")
            watch_accesses(None, ())
        if timed_out or wt.is_alive() or any(th.is_alive() for th in threads):
            if not bad:
                res.inconc("schedule A: watchdog fired")
                return
            res.violation(case, "; ".join(dict.fromkeys(bad))[:2500])
            return
        roles = {me: "writer", **{tid: f"reader{i}" for i, tid in enumerate(tids)}}
        res.count("interleaving:" + interleaving_signature(log, roles))
        evs = log.events
        final_release = max((e[0] for e in evs if e[1] == "released" and e[2] == me and e[4] == 0), default=None)
        for i, tid in enumerate(tids):
            mine = [e for e in evs if e[2] == tid]
            call = next(e[0] for e in mine if e[1] == "call")
            ret = next((e[0] for e in mine if e[1] == "ret"), None)
            acq = [e[0] for e in mine if e[1] == "acquired" and e[0] > call]
            blocked = [e[0] for e in mine if e[1] == "blocked"]
            res.count("blocked_events", len(blocked))
            if final_release is None:
                bad.append("writer never released the lock")
                continue
            if ret is not None and ret < final_release:
                bad.append(f"{op}: started inside another thread's critical section (phase {p}/{m}) and returned before the lock was released")
            elif not acq:
                bad.append(f"{op}: ran while another thread was inside `with tree:` and never acquired the tree lock")
            elif acq[0] < final_release:
                bad.append(f"{op}: acquired the tree lock while another thread was still inside `with tree:` (mutual exclusion broken)")
            if i in results:
                msg = check_snapshot(labels_of(op, results[i]), {1})
                res.count("snapshots_checked")
                if msg:
                    bad.append(f"{op} (reader started at writer phase {p}/{m}, style {style}): {msg}")
        bad += errors
    except SelfDeadlock as e:
        bad.append(f"nested `with tree:` (depth {nest}): {e}")
    except Exception:
        bad.append("writer thread raised: " + short_tb(5))
    finally:
        go.set()
        shutil.rmtree(tmpdir, ignore_errors=True)
    res.count(f"cell:A:{op}:{style}")
    if bad:
        res.violation(case, "; ".join(dict.fromkeys(bad))[:2500], events=[e for e in log.events if e[1] != "try"][-40:])


# ------------------------------------------------------------------------------------
# schedule B: reader first, paused in its own callback; writer tries to commit meanwhile
# ------------------------------------------------------------------------------------
def schedule_B(case, res):
    op, style, k = case["op"], case["style"], case["k"]
    log = Log()
    t = build_tree(0)
    try:
        effective = instrument(t, log)
    except Exception as e:  # noqa: BLE001
        # an uncontended `with tree: pass` in a single thread raised: the lock is not usable at all
        res.violation(case, f"`with tree: pass` on a fresh tree, no other thread involved, raised {type(e).__name__}: {e}")
        return
    if not effective:
        if any(ev[1] == "released" for ev in log.events) and not any(ev[1] == "acquired" for ev in log.events):
            res.violation(case, "`with tree: pass` released the tree lock without having acquired it")
            return
        res.inconc("lock instrumentation is not effective: `with tree:` does not use tree._lock.acquire()/release()")
        return
    tmpdir = tempfile.mkdtemp(prefix="vmon-c18-")
    bad = []
    hook = Hook(k)
    out = {}
    errors = []
    try:
        def reader():
            log.add("call", threading.get_ident(), op)
            try:
                out["r"] = run_op(op, t, tmpdir, hook=hook)
            except Exception:
                errors.append("reader raised: " + short_tb(4))
            log.add("ret", threading.get_ident(), op)

        wdone = threading.Event()

        def writer():
            me = threading.get_ident()
            try:
                with t:
                    log.add("enter-body", me)
                    for s in writer_steps(t, style, 0):
                        s()
                    log.add("leave-body", me)
            except Exception:
                errors.append("writer raised: " + short_tb(4))
            wdone.set()
            log.add("writer-done", me)

        rt = threading.Thread(target=reader, daemon=True)
        rt.start()
        # wait until the reader is paused in its k-th callback or has finished (fewer callbacks than k)
        t0 = time.monotonic()
        while not hook.paused.is_set() and rt.is_alive() and time.monotonic() - t0 < WATCHDOG:
            hook.paused.wait(0.002)
        paused = hook.paused.is_set()
        wt = threading.Thread(target=writer, daemon=True)
        wt.start()
        wid = None
        while wid is None:
            wid = wt.ident

        def settled(events):
            return any((ev[1] == "blocked" and ev[2] == wid) or ev[1] == "writer-done" for ev in events)

        ok = log.wait_for(settled)
        hook.resume.set()
        rt.join(WATCHDOG)
        wt.join(WATCHDOG)
        if not ok or rt.is_alive() or wt.is_alive():
            res.inconc("schedule B: watchdog fired")
            return
        res.count("blocked_events", sum(1 for e in log.events if e[1] == "blocked"))
        res.count("interleaving:" + interleaving_signature(log, {rt.ident: "reader", wid: "writer"}))
        if paused:
            res.count("reader_paused_mid_operation")
        if "r" in out:
            msg = check_snapshot(labels_of(op, out["r"]), {0, 1})
            res.count("snapshots_checked")
            if msg:
                bad.append(f"{op} paused at its callback #{k} while a writer committed ({style}): {msg}")
        bad += errors
    except Exception:
        bad.append("controller raised: " + short_tb(5))
    finally:
        hook.resume.set()
        shutil.rmtree(tmpdir, ignore_errors=True)
    res.count(f"cell:B:{op}:{style}")
    if bad:
        res.violation(case, "; ".join(dict.fromkeys(bad))[:2500], events=[e for e in log.events if e[1] != "try"][-40:])


# ------------------------------------------------------------------------------------
# schedule C: re-entrancy in the owner thread
# ------------------------------------------------------------------------------------
def schedule_C(case, res):
    log = Log()
    t = build_tree(0)
    attach_log(t, log)
    tmpdir = tempfile.mkdtemp(prefix="vmon-c18-")
    bad = []
    done = threading.Event()

    def owner():
        try:
            depth = case["nest"]

            def inner(d):
                with t:
                    if d > 1:
                        return inner(d - 1)
                    for op in OPS:
                        r = run_op(op, t, tmpdir)
                        msg = check_snapshot(labels_of(op, r), {0})
                        res.count("snapshots_checked")
                        if msg:
                            bad.append(f"{op} inside nested `with tree:`: {msg}")
                    return True

            inner(depth)
            # after leaving all levels the lock must be free again for another thread
            ok = []
            th = threading.Thread(target=lambda: ok.append(t._lock.inner.acquire(timeout=WATCHDOG) and (t._lock.inner.release() or True)), daemon=True)
            th.start()
            th.join(WATCHDOG)
            if ok != [True]:
                bad.append("after leaving the nested `with tree:` blocks the lock is still held")
        except SelfDeadlock as e:
            bad.append(f"owner thread: {e}")
        except Exception:
            bad.append("owner thread raised: " + short_tb(5))
        done.set()

    th = threading.Thread(target=owner, daemon=True)
    th.start()
    if not done.wait(WATCHDOG * 2):
        res.violation(case, "owner thread nesting `with tree:` and calling the snapshot operations did not finish (deadlock)")
        shutil.rmtree(tmpdir, ignore_errors=True)
        return
    shutil.rmtree(tmpdir, ignore_errors=True)
    res.count("cell:C")
    if bad:
        res.violation(case, "; ".join(dict.fromkeys(bad))[:2500])


class _Boom(Exception):
    pass


class _BaseBoom(BaseException):
    pass


def schedule_D(case, res):
    """A critical section is left through an exception (raised by the user's code or by a refused library call inside it).
    Decided on the event log once the writer thread has ended: every acquisition is matched by a release, i.e. the lock
    is free; only then a reader runs each snapshot operation, which must not find the lock taken."""
    log = Log()
    t = build_tree(0)
    attach_log(t, log)
    tmpdir = tempfile.mkdtemp(prefix="vmon-c18-")
    bad = []
    seen = []

    def writer():
        def inner(d):
            with t:
                if d > 1:
                    return inner(d - 1)
                steps = writer_steps(t, case["style"], 0)
                for fn in steps[: case["phase"]]:
                    fn()
                if case["exc"] == "user":
                    raise _Boom("user code fails inside the critical section")
                if case["exc"] == "base":
                    raise _BaseBoom("non-Exception raised inside the critical section")
                t.add("dup", data_id="dup", **_kw(0))
                t.add("dup", data_id="dup", **_kw(0))  # refused by the library: equal sibling

        try:
            inner(case["nest"])
            seen.append("no exception")
        except BaseException as e:  # noqa: BLE001
            seen.append(type(e).__name__)

    th = threading.Thread(target=writer, daemon=True)
    th.start()
    th.join(WATCHDOG * 2)
    if th.is_alive():
        res.inconc("schedule D: writer thread did not end")
        shutil.rmtree(tmpdir, ignore_errors=True)
        return
    res.count("cell:D")
    wid = th.ident
    acq = sum(1 for e in log.events if e[1] == "acquired" and e[2] == wid)
    rel = sum(1 for e in log.events if e[1] == "released" and e[2] == wid)
    res.count("exception_exits", 1)
    if seen == ["no exception"]:
        bad.append("the exception raised inside `with tree:` did not reach the caller")
    if acq < 1:
        res.inconc("schedule D: no acquisition of the tree lock observed")
    elif rel != acq:
        bad.append(f"after `with tree:` (nesting {case['nest']}) was left through {seen} the lock was acquired {acq}x but released {rel}x: "
                   "it stays held by a thread that has ended, every later snapshot operation would block for ever")
    else:
        # state after the aborted section is whatever the writer did; restore a committed state under the lock, then read
        def reader():
            try:
                with t:
                    t.clear()
                    fill(t, 2)
                for op in OPS:
                    r = run_op(op, t, tmpdir)
                    msg = check_snapshot(labels_of(op, r), {2})
                    res.count("snapshots_checked")
                    if msg:
                        bad.append(f"{op} after an aborted critical section: {msg}")
            except Exception:
                bad.append("reader after an aborted critical section raised: " + short_tb(5))

        n0 = len(log.events)
        rt = threading.Thread(target=reader, daemon=True)
        rt.start()
        rt.join(WATCHDOG * 2)
        if rt.is_alive():
            res.inconc("schedule D: reader did not end")
        elif any(e[1] == "blocked" for e in log.events[n0:]):
            bad.append("a reader found the lock taken although no thread is inside a critical section")
    shutil.rmtree(tmpdir, ignore_errors=True)
    if bad:
        res.violation(case, "; ".join(dict.fromkeys(bad))[:2500])


def schedule_D2(case, res):
    """The owner nests `with tree:`; the inner block is left through an exception that the owner catches *inside the outer
    block* and carries on.  It is still inside its critical section: it still holds the lock (event log) and a reader
    started now waits until the outer block is left."""
    log = Log()
    t = build_tree(0)
    attach_log(t, log)
    tmpdir = tempfile.mkdtemp(prefix="vmon-c18-")
    bad, out, depth_seen = [], {}, []
    excs = {"user": _Boom, "base": _BaseBoom, "kbd": KeyboardInterrupt, "genexit": GeneratorExit, "sysexit": SystemExit}
    E = excs[case["exc"]]
    reader_started = threading.Event()

    def reader():
        me = threading.get_ident()
        log.add("call", me, "copy")
        try:
            out["r"] = run_op("copy", t, tmpdir)
        except Exception:
            out["err"] = short_tb(4)
        log.add("ret", me, "copy")

    def owner():
        me = threading.get_ident()
        try:
            with t:
                steps = writer_steps(t, "rebuild", 0)
                for fn in steps[:2]:
                    fn()
                for _ in range(case["nest"]):
                    try:
                        with t:
                            with t:
                                raise E("raised inside a nested block, caught by the owner inside the outer one")
                    except BaseException:  # noqa: BLE001
                        pass
                acq = sum(1 for e in log.events if e[1] == "acquired" and e[2] == me)
                rel = sum(1 for e in log.events if e[1] == "released" and e[2] == me)
                depth_seen.append(acq - rel)
                rt = threading.Thread(target=reader, daemon=True)
                rt.start()
                out["rt"] = rt
                rid = rt.ident
                log.wait_for(lambda evs: any(e[2] == rid and e[1] in ("blocked", "ret") for e in evs), timeout=WATCHDOG)
                out["reader_state_inside"] = next((e[1] for e in reversed(log.events) if e[2] == rid and e[1] in ("blocked", "ret")), None)
                for fn in steps[2:]:
                    fn()
        except BaseException as e:  # noqa: BLE001
            out["owner_exc"] = f"{type(e).__name__}: {e}"

    th = threading.Thread(target=owner, daemon=True)
    th.start()
    th.join(WATCHDOG * 3)
    if th.is_alive():
        res.inconc("schedule D2: owner thread did not end")
        shutil.rmtree(tmpdir, ignore_errors=True)
        return
    if out.get("rt") is not None:
        out["rt"].join(WATCHDOG)
    res.count("cell:D2")
    if out.get("owner_exc"):
        bad.append(f"the owner's critical section raised {out['owner_exc']} after it had caught the inner exception")
    if depth_seen and depth_seen[0] < 1:
        bad.append(f"after catching {case['exc']} from a nested `with tree:` the owner is still inside its outer block but holds the lock "
                   f"{depth_seen[0]} times (event log: acquired minus released)")
    if out.get("reader_state_inside") == "ret":
        bad.append("a reader's copy() returned while the owner was still inside its outer `with tree:` block")
    elif out.get("reader_state_inside") is None and not bad:
        res.inconc("schedule D2: the reader neither blocked nor returned")
    if "r" in out:
        msg = check_snapshot(labels_of("copy", out["r"]), {1})
        res.count("snapshots_checked")
        if msg:
            bad.append(f"copy() started inside the owner's critical section: {msg}")
    shutil.rmtree(tmpdir, ignore_errors=True)
    if bad:
        res.violation(case, "; ".join(dict.fromkeys(bad))[:2500])


def schedule_E(case, res):
    """The process has a single thread when it enters `with tree:`; the readers are started from inside the block.  Decided on
    the readers' results alone (no instrumentation needed): every snapshot is the state before or after the block."""
    t = build_tree(0)
    tmpdir = tempfile.mkdtemp(prefix="vmon-c18-")
    bad, results, threads = [], {}, []
    if threading.active_count() != 1:
        res.count("schedule_E_not_single_threaded")
    ops = ["copy", "to_dict_list", "save_stream", "with", "copy_to", "to_dotfile"]
    steps = writer_steps(t, case["style"], 0)
    try:
        with t:
            for fn in steps[: len(steps) // 2]:
                fn()

            def reader(op):
                try:
                    results[op] = run_op(op, t, tmpdir)
                except Exception:
                    results[op] = ("EXC", short_tb(3))

            for op in ops:
                th = threading.Thread(target=reader, args=(op,), daemon=True)
                th.start()
                threads.append(th)
            # give the readers every chance to run (they must be waiting for the lock): join with a short real-time bound -
            # a reader that is (rightly) blocked simply does not finish here; nothing is concluded from the timing
            for th in threads:
                th.join(0.05)
            early = [op for op, th in zip(ops, threads) if not th.is_alive()]
            for fn in steps[len(steps) // 2:]:
                fn()
        for th in threads:
            th.join(WATCHDOG)
        if any(th.is_alive() for th in threads):
            res.inconc("schedule E: a reader did not end")
            return
        res.count("cell:E")
        for op in ops:
            r = results.get(op)
            if isinstance(r, tuple) and r and r[0] == "EXC":
                bad.append(f"{op} raised: {r[1]}")
                continue
            msg = check_snapshot(labels_of(op, r), {0, 1})
            res.count("snapshots_checked")
            if msg:
                bad.append(f"{op}, started from inside a `with tree:` block that was entered while the process had one thread"
                           f"{' (finished before the block was left)' if op in early else ''}: {msg}")
    except Exception:
        bad.append("schedule E raised: " + short_tb(5))
    finally:
        shutil.rmtree(tmpdir, ignore_errors=True)
    if bad:
        res.violation(case, "; ".join(dict.fromkeys(bad))[:2500])


class _SlowStream(io.StringIO):
    """A text target whose first write pauses (a slow disk, a socket): the pause is in the *output* phase of save()."""

    def __init__(self, hook):
        super().__init__()
        self._hook = hook

    def write(self, s):
        self._hook.hit()
        return super().write(s)


def schedule_G(case, res):
    """Three threads: (1) an earlier save() is still writing its output to a slow target (no lock needed any more); (2) the
    owner is inside `with tree:`, half-way through an update, and calls a snapshot operation itself; (3) a reader calls a
    snapshot operation meanwhile.  The reader may only see a committed state - whatever the owner's nested call does with the
    lock (e.g. waiting on a condition bound to it)."""
    op, owner_op, style = case["op"], case["owner_op"], case["style"]
    log = Log()
    t = build_tree(0)
    attach_log(t, log)
    tmpdir = tempfile.mkdtemp(prefix="vmon-c18-")
    bad, errors, results = [], [], {}
    hook = Hook(1)
    steps = writer_steps(t, style, 0)
    p = max(1, len(steps) // 2)

    def slow_saver():
        try:
            t.save(_SlowStream(hook))
        except Exception:
            errors.append("slow save raised: " + short_tb(4))

    t1 = threading.Thread(target=slow_saver, daemon=True)
    t1.start()
    if not hook.paused.wait(WATCHDOG):
        res.inconc("schedule G: the slow save never reached its output phase")
        hook.resume.set()
        shutil.rmtree(tmpdir, ignore_errors=True)
        return
    mid = threading.Event()
    rdone = threading.Event()
    rid = {}

    def owner():
        try:
            with t:
                for s_ in steps[:p]:
                    s_()
                mid.set()
                run_op(owner_op, t, tmpdir)  # the owner's own snapshot call, in the middle of its update
                log.add("owner-op-done", threading.get_ident())
                # go on only after the reader is blocked on the lock or has returned
                log.wait_for(lambda evs: any(e[1] in ("blocked", "ret") and e[2] == rid.get("r") for e in evs))
                for s_ in steps[p:]:
                    s_()
        except Exception:
            errors.append("owner raised: " + short_tb(4))

    def reader():
        me = threading.get_ident()
        rid["r"] = me
        log.add("call", me, op)
        try:
            results["r"] = run_op(op, t, tmpdir)
        except Exception:
            errors.append("reader raised: " + short_tb(4))
        log.add("ret", me, op)
        rdone.set()

    tw = threading.Thread(target=owner, daemon=True)
    tw.start()
    if not mid.wait(WATCHDOG):
        res.inconc("schedule G: owner did not reach the middle of its update")
    tr = threading.Thread(target=reader, daemon=True)
    tr.start()
    # the slow save may finish once the reader is blocked on the lock or has returned
    log.wait_for(lambda evs: any(e[1] in ("blocked", "ret") and e[2] == rid.get("r") for e in evs))
    hook.resume.set()
    for th in (t1, tw, tr):
        th.join(WATCHDOG * 2)
    from .. import locktrack

    if locktrack.DEADLOCKS:
        bad.append("deadlock among the library's locks: " + locktrack.DEADLOCKS[0])
        del locktrack.DEADLOCKS[:]
    if any(th.is_alive() for th in (t1, tw, tr)):
        if not bad:
            res.inconc("schedule G: watchdog fired")
            shutil.rmtree(tmpdir, ignore_errors=True)
            return
    res.count("cell:G")
    if "r" in results:
        msg = check_snapshot(labels_of(op, results["r"]), {0, 1})
        res.count("snapshots_checked")
        if msg:
            bad.append(f"{op} while the owner (inside `with tree:`, step {p}/{len(steps)}) called {owner_op} and an earlier save() was still "
                       f"writing: {msg}")
    wid = tw.ident
    if any(e[1] == "released" and e[2] == wid and len(e) > 5 for e in log.events):
        inside = [e for e in log.events if e[2] == wid]
        bad.append("the owner's lock was given up in the middle of its critical section (Condition.wait on the tree lock)") if not bad else None
    bad += errors
    shutil.rmtree(tmpdir, ignore_errors=True)
    if bad:
        res.violation(case, "; ".join(dict.fromkeys(b for b in bad if b))[:2500], events=[e for e in log.events if e[1] != "try"][-40:])


def _build_dw_tree(ver):
    """The same tree with DictWrapper data: the version label lives *inside* the wrapped dict."""
    from nutree import Tree
    from nutree.common import DictWrapper

    t = Tree("shared-dw")
    for g in range(G):
        top = t.add(DictWrapper({"label": f"g{g}@v{ver}", "pad": g}), data_id=f"g{g}")
        for c in range(C):
            top.add(DictWrapper({"label": f"g{g}c{c}@v{ver}", "pad": c}), data_id=f"g{g}c{c}")
    return t


def schedule_R(case, res):
    """The reader is paused right after it has given up the tree lock for the last time (still inside the snapshot operation:
    e.g. save() writes its output then); a writer runs half of a critical section; the reader goes on.  Whatever the operation
    still does after the lock, it works on the snapshot: the result is the committed state, and it does not fail."""
    from nutree.common import DictWrapper

    from .. import locktrack

    op, style = case["op"], case["style"]
    dw = bool(case.get("dw"))
    log = Log()
    t = _build_dw_tree(0) if dw else build_tree(0)
    lk = attach_log(t, log)
    if not isinstance(lk, locktrack.Tracked):
        res.inconc("schedule R needs the tracking lock")
        return
    tmpdir = tempfile.mkdtemp(prefix="vmon-c18-")
    bad, errors, results = [], [], {}
    released, resume = threading.Event(), threading.Event()
    rid = {}

    def after_release(me, depth):
        if me == rid.get("r") and depth <= 0 and not released.is_set():
            released.set()
            resume.wait(WATCHDOG)

    lk.after_release = after_release

    def reader():
        rid["r"] = threading.get_ident()
        log.add("call", rid["r"], op)
        try:
            if dw:
                fp = io.StringIO()
                if op == "save_stream":
                    t.save(fp, mapper=DictWrapper.serialize_mapper)
                    results["r"] = [e[1]["label"] for e in json.loads(fp.getvalue())["nodes"]]
                else:
                    results["r"] = []

                    def rec(lst):
                        for d in lst:
                            results["r"].append(d["label"])
                            rec(d.get("children", []))

                    rec(t.to_dict_list(mapper=DictWrapper.serialize_mapper))
            else:
                results["r"] = labels_of(op, run_op(op, t, tmpdir))
        except Exception:
            errors.append(f"{op}: the operation failed after a writer had started its critical section behind it: " + short_tb(5))
        log.add("ret", rid["r"], op)
        released.set()

    def writer():
        if not released.wait(WATCHDOG):
            return
        try:
            with t:
                if dw:
                    nodes = list(t)
                    for n in nodes[: len(nodes) // 2]:
                        n.data._dict["label"] = n.data._dict["label"].replace("@v0", "@v1")  # the data objects are updated in place
                    resume.set()
                    log.wait_for(lambda evs: any(e[1] == "ret" and e[2] == rid.get("r") for e in evs))
                    for n in nodes[len(nodes) // 2:]:
                        n.data._dict["label"] = n.data._dict["label"].replace("@v0", "@v1")
                else:
                    steps = writer_steps(t, style, 0)
                    p = max(1, len(steps) // 2)
                    for s_ in steps[:p]:
                        s_()
                    resume.set()
                    log.wait_for(lambda evs: any(e[1] == "ret" and e[2] == rid.get("r") for e in evs))
                    for s_ in steps[p:]:
                        s_()
        except Exception:
            errors.append("writer raised: " + short_tb(4))
        finally:
            resume.set()

    tr = threading.Thread(target=reader, daemon=True)
    tw = threading.Thread(target=writer, daemon=True)
    tr.start()
    tw.start()
    tr.join(WATCHDOG * 2)
    tw.join(WATCHDOG * 2)
    lk.after_release = None
    shutil.rmtree(tmpdir, ignore_errors=True)
    if tr.is_alive() or tw.is_alive():
        res.inconc("schedule R: watchdog fired")
        return
    res.count("cell:R")
    if "r" in results:
        msg = check_snapshot(results["r"], {0, 1})
        res.count("snapshots_checked")
        if msg:
            bad.append(f"{op}{' (DictWrapper data updated in place)' if dw else ''}: paused after its last release of the tree lock while a "
                       f"writer ran half a critical section: {msg}")
    bad += errors
    if bad:
        res.violation(case, "; ".join(dict.fromkeys(bad))[:2500])


class _RaisingHook:
    """Callback hook that fails at its k-th invocation (a user callback with a bug, a data object that cannot be mapped)."""

    def __init__(self, k):
        self.k, self.n = k, 0

    def hit(self):
        self.n += 1
        if self.n == self.k:
            raise _Boom("user callback fails inside a snapshot operation")


def schedule_F(case, res):
    """A snapshot operation is ended by an exception from the user's callback (mapper / predicate).  Once that thread has ended
    the event log must show the tree lock released as often as acquired; a writer and all snapshot operations then run
    without finding the lock taken."""
    op, k = case["op"], case["k"]
    log = Log()
    t = build_tree(0)
    attach_log(t, log)
    tmpdir = tempfile.mkdtemp(prefix="vmon-c18-")
    bad, seen = [], []

    kept = []  # the application keeps the exception object (a logger, pytest.raises, a result list): its traceback keeps every
    #            frame of the failed call alive, suspended generators included - the lock must be free all the same

    class _BadTarget:
        """an output stream that fails at its k-th write (disk full, an encoding the stream cannot represent)"""

        def __init__(self):
            self.n = 0

        def write(self, text):
            self.n += 1
            if self.n == k:
                raise _Boom("the output stream fails inside a snapshot operation")
            return len(text)

    def one_call():
        if op == "save_badpath":
            # the target cannot be opened (folder does not exist): an OSError from the operation itself
            t.save(os.path.join(tmpdir, "no-such-folder", "x.json"), compression=bool(k % 2))
        elif op == "save_badwrite":
            t.save(_BadTarget())
        elif op == "to_dotfile_badwrite":
            t.to_dotfile(_BadTarget())
        else:
            run_op(op, t, tmpdir, hook=_RaisingHook(k))

    def reader():
        try:
            if case.get("nested"):
                with t:
                    one_call()
            else:
                one_call()
            seen.append("returned")
        except BaseException as e:  # noqa: BLE001
            seen.append(type(e).__name__)
            kept.append(e)

    th = threading.Thread(target=reader, daemon=True)
    th.start()
    th.join(WATCHDOG * 2)
    if th.is_alive():
        res.inconc("schedule F: reader did not end")
        shutil.rmtree(tmpdir, ignore_errors=True)
        return
    res.count("cell:F")
    res.count(f"callback_fault:{op}:{seen[0] if seen else '?'}")
    rid = th.ident
    acq = sum(1 for e in log.events if e[1] == "acquired" and e[2] == rid)
    rel = sum(1 for e in log.events if e[1] == "released" and e[2] == rid)
    if acq < 1 and op == "save_badpath":
        res.count("badpath_failed_before_locking")  # the target is opened before the lock is taken: nothing to leak
    elif acq < 1:
        res.inconc("schedule F: the operation never acquired the tree lock")
    elif rel != acq:
        bad.append(f"{op}: ended by an exception (fault at call #{k} of the callback / output stream, outcome {seen}); the tree lock was acquired {acq}x but "
                   f"released {rel}x - it stays held by a thread that has ended")
    else:
        def after():
            try:
                with t:
                    t.clear()
                    fill(t, 2)
                for op2 in OPS:
                    r = run_op(op2, t, tmpdir)
                    msg = check_snapshot(labels_of(op2, r), {2})
                    res.count("snapshots_checked")
                    if msg:
                        bad.append(f"{op2} after {op} was ended by a callback exception: {msg}")
            except Exception:
                bad.append("operations after a failed snapshot operation raised: " + short_tb(5))

        n0 = len(log.events)
        at = threading.Thread(target=after, daemon=True)
        at.start()
        at.join(WATCHDOG * 2)
        if at.is_alive():
            res.inconc("schedule F: follow-up thread did not end")
        elif any(e[1] == "blocked" for e in log.events[n0:]):
            bad.append(f"after {op} failed in a callback another thread found the lock taken although nobody is inside a critical section")
    shutil.rmtree(tmpdir, ignore_errors=True)
    kept.clear()
    if bad:
        res.violation(case, "; ".join(dict.fromkeys(bad))[:2500])


# ------------------------------------------------------------------------------------
# stress
# ------------------------------------------------------------------------------------
def stress(case, res):
    rng = random.Random(case["seed"])
    log = Log()
    t = build_tree(0)
    attach_log(t, log)
    tmpdir = tempfile.mkdtemp(prefix="vmon-c18-")
    bad = []
    state = {"version": 0, "inside": 0, "max_inside": 0}
    committed = {0}
    stop = threading.Event()
    old_si = sys.getswitchinterval()
    sys.setswitchinterval(1e-5)
    mon = sys.monitoring
    tool = mon.PROFILER_ID
    inj = {"n": 0}
    prefix = os.sep + "nutree" + os.sep
    yrng = random.Random(case["seed"] + 1)
    have_tool = False
    try:
        try:
            mon.use_tool_id(tool, "vmon-yield")
            have_tool = True

            def on_line(code, line):
                if prefix not in code.co_filename:
                    return mon.DISABLE
                if yrng.random() < case.get("yield_p", 0.02):
                    inj["n"] += 1
                    time.sleep(0)

            mon.register_callback(tool, mon.events.LINE, on_line)
            mon.set_events(tool, mon.events.LINE)
        except ValueError:
            pass

        def writer(wi):
            r = random.Random(case["seed"] * 100 + wi)
            for it in range(case["iters"]):
                if stop.is_set():
                    break
                try:
                    with t:
                        state["inside"] += 1
                        if state["inside"] > 1:
                            bad.append("two writer threads are inside `with tree:` at the same time")
                        v = state["version"]
                        for s in writer_steps(t, r.choice(STYLES), v):
                            s()
                            if r.random() < 0.1:
                                time.sleep(0)
                        state["version"] = v + 1
                        committed.add(v + 1)
                        state["inside"] -= 1
                except Exception:
                    bad.append("writer raised: " + short_tb(4))
                    stop.set()

        def reader(ri):
            r = random.Random(case["seed"] * 1000 + ri)
            for it in range(case["iters"]):
                if stop.is_set():
                    break
                op = r.choice(OPS)
                try:
                    lo = state["version"]
                    out = run_op(op, t, tmpdir)
                    hi = state["version"] + 1
                    msg = check_snapshot(labels_of(op, out), set(range(lo, hi + 1)))
                    res.count("snapshots_checked")
                    res.count(f"stress_op:{op}")
                    if msg:
                        bad.append(f"stress: {op}: {msg}")
                        stop.set()
                except Exception:
                    bad.append(f"stress reader {op} raised: " + short_tb(4))
                    stop.set()

        ths = [threading.Thread(target=writer, args=(i,), daemon=True) for i in range(case["writers"])]
        ths += [threading.Thread(target=reader, args=(i,), daemon=True) for i in range(case["readers"])]
        t0 = time.monotonic()
        for th in ths:
            th.start()
        # bounded by iterations and by a soft time limit (then the threads finish their current operation and leave);
        # only threads that do not come back long after `stop` was set make the run inconclusive
        soft = float(case.get("soft_s", 60))
        for th in ths:
            th.join(max(0.05, soft - (time.monotonic() - t0)))
        if any(th.is_alive() for th in ths):
            stop.set()
            res.count("stress_runs_ended_by_soft_limit")
            t1 = time.monotonic()
            for th in ths:
                th.join(max(1.0, 600 - (time.monotonic() - t1)))
        if any(th.is_alive() for th in ths):
            res.inconc("stress run: threads did not end within 600 s after the stop flag was set (possible deadlock)")
        blocked = sum(1 for e in log.events if e[1] == "blocked")
        res.count("blocked_events", blocked)
        wids = {th.ident: f"w{i}" for i, th in enumerate(ths[:case["writers"]])}
        rids = {th.ident: f"r{i}" for i, th in enumerate(ths[case["writers"]:])}
        # hand-over pattern of the lock in the stress run: sequence of (acquirer role) - one signature per run
        res.count("interleaving:" + interleaving_signature(log, {**wids, **rids}))
        res.count("lock_handovers", sum(1 for e in log.events if e[1] == "acquired" and e[4] == 1))
        res.count("yields_injected", inj["n"])
        res.count("stress_commits", state["version"])
        res.case(case, nontrivial=blocked >= 1)
    finally:
        if have_tool:
            mon.set_events(tool, 0)
            mon.free_tool_id(tool)
        sys.setswitchinterval(old_si)
        stop.set()
        shutil.rmtree(tmpdir, ignore_errors=True)
    if bad:
        res.violation(case, "; ".join(dict.fromkeys(bad))[:2500])


def run_case(case, res):
    TYPED["on"] = bool(case.get("typed"))
    TYPED["fs"] = bool(case.get("fs"))
    try:
        return _run_case(case, res)
    finally:
        if TRACKED["n"]:
            res.count("trees_with_tracked_lock", TRACKED["n"])
            TRACKED["n"] = 0


def _run_case(case, res):
    k = case["kind"]
    if k == "A":
        m = len(writer_steps(build_tree(0), case["style"], 0))
        res.case(case, nontrivial=0 < case["phase"] < m or case["phase"] < 0)
        return schedule_A(case, res)
    if k == "B":
        res.case(case, nontrivial=True)
        return schedule_B(case, res)
    if k == "C":
        res.case(case, nontrivial=True)
        return schedule_C(case, res)
    if k == "D":
        res.case(case, nontrivial=True)
        return schedule_D(case, res)
    if k == "D2":
        res.case(case, nontrivial=True)
        return schedule_D2(case, res)
    if k == "E":
        res.case(case, nontrivial=True)
        return schedule_E(case, res)
    if k == "F":
        res.case(case, nontrivial=True)
        return schedule_F(case, res)
    if k == "G":
        res.case(case, nontrivial=True)
        return schedule_G(case, res)
    if k == "R":
        res.case(case, nontrivial=True)
        return schedule_R(case, res)
    return stress(case, res)


NSHARDS = 16


def all_points(tier):
    pts = []
    for op in OPS:
        for style in STYLES:
            m = len(writer_steps(build_tree(0), style, 0))
            phases = [0, 1, m // 2, m - 1, m] if tier == "quick" else list(range(m + 1))
            for p in sorted(set(phases)):
                for nest in (1, 2):
                    for readers in (1, 3):
                        if tier == "quick" and (nest == 2) != (readers == 3):
                            continue
                        pts.append({"kind": "A", "op": op, "style": style, "phase": p, "nest": nest, "readers": readers})
    for op in OPS:
        for style in (STYLES if tier != "quick" else ["rebuild"]):
            pts.append({"kind": "A", "op": op, "style": style, "phase": 2, "nest": 2, "readers": 2, "owner_op": True})
    for op in OPS:
        for style in (STYLES if tier != "quick" else ["rebuild"]):
            pts.append({"kind": "A", "op": op, "style": style, "phase": 2, "nest": 1, "readers": 2, "reader_holds_other": True})
    for style in STYLES:
        for nest in (1, 2):
            for readers in (1, 2):
                pts.append({"kind": "A", "op": "copy_to", "style": style, "phase": 2, "nest": nest, "readers": readers, "owner_op": True,
                            "shared_dst": True})
    for op in OPS_WITH_CALLBACK:
        for style in STYLES:
            for k in ([1, 2, 5, 9, 12] if tier == "quick" else list(range(1, 14))):
                pts.append({"kind": "B", "op": op, "style": style, "k": k})
    for nest in (1, 2, 3):
        pts.append({"kind": "C", "nest": nest})
        pts.append({"kind": "C", "nest": nest, "fs": True})  # a FileSystemTree is re-entrant like any other tree
    for op in OPS:
        for owner_op in (("save_stream", "save_path") if tier == "quick" else ("save_stream", "save_path", "save_zip", "copy", "to_dict_list")):
            for style in (("rebuild",) if tier == "quick" else STYLES):
                pts.append({"kind": "G", "op": op, "owner_op": owner_op, "style": style})
    for op in OPS:
        for style in (("rebuild",) if tier == "quick" else STYLES):
            pts.append({"kind": "R", "op": op, "style": style})
    for op in ("save_stream", "to_dict_list"):
        pts.append({"kind": "R", "op": op, "style": "inplace", "dw": True})
    for op in OPS_WITH_CALLBACK:
        for k in ((1, 3, 8) if tier == "quick" else (1, 2, 3, 5, 8, 12)):
            for nested in (False, True):
                pts.append({"kind": "F", "op": op, "k": k, "nested": nested})
    for k in (1, 2):
        for nested in (False, True):
            pts.append({"kind": "F", "op": "save_badpath", "k": k, "nested": nested})
    for op in ("save_badwrite", "to_dotfile_badwrite"):
        for k in ((1, 4, 9) if tier == "quick" else (1, 2, 3, 4, 6, 9, 14)):
            for nested in (False, True):
                pts.append({"kind": "F", "op": op, "k": k, "nested": nested})
    for nest in (1, 2, 3):
        for exc in ("user", "base", "library"):
            for style in STYLES:
                for phase in ((0, 2) if tier == "quick" else (0, 1, 2, 3)):
                    pts.append({"kind": "D", "nest": nest, "exc": exc, "style": style, "phase": phase})
    for exc in ("user", "base", "kbd", "genexit", "sysexit"):
        for nest in (1, 2):
            pts.append({"kind": "D2", "exc": exc, "nest": nest})
    for style in STYLES:
        pts.append({"kind": "E", "style": style})
    fs_pts = []
    for op in ("save_stream", "save_path", "save_zip", "copy", "copy_to", "to_dict_list", "to_dotfile_path", "with"):
        for style in (("rebuild",) if tier == "quick" else STYLES):
            for phase in ((2,) if tier == "quick" else (0, 1, 2, 3)):
                fs_pts.append({"kind": "A", "op": op, "style": style, "phase": phase, "nest": 1, "readers": 2, "fs": True})
    # the same schedule points on a TypedTree whose kinds change from version to version (rebuild/mixed styles)
    typed_pts = []
    for pt in pts:
        if pt["kind"] == "R" and pt.get("dw"):
            continue
        if pt.get("fs"):
            continue
        if pt["kind"] == "G":
            continue  # TypedTree.save() writes its output while it still holds the lock: there is no unlocked output phase
        if pt["kind"] in ("C", "D", "D2", "E", "F", "R") or (pt.get("style") in ("rebuild", "mixed") and (tier != "quick" or pt.get("phase", 1) in (1, 2) or pt["kind"] == "B")):
            typed_pts.append({**pt, "typed": True})
    return pts + typed_pts + fs_pts


def shards(tier, seed):
    out = [{"name": f"sched{i}", "kind": "sched", "i": i, "budget_s": 200 if tier == "quick" else 2400} for i in range(NSHARDS)]
    ns = 4 if tier == "quick" else 32
    out += [{"name": f"stress{i}", "kind": "stress", "i": i, "iters": 40 if tier == "quick" else 2500, "budget_s": 200 if tier == "quick" else 1800, "cov": False,
             "timeout_s": 400 if tier == "quick" else 3600} for i in range(ns)]
    # schedules A (every op, writer in the middle of its section) and C once more under `python -O`: taking the lock must not be
    # the side effect of an assert statement
    out += [{"name": f"opt{i}", "kind": "sched-opt", "i": i, "pyopt": True, "budget_s": 200 if tier == "quick" else 1200} for i in range(2)]
    return out


def run_shard(spec, res):
    if spec["kind"] == "sched":
        for j, pt in enumerate(all_points(spec["tier"])):
            if j % NSHARDS != spec["i"]:
                continue
            run_case(pt, res)
            if res.expired():
                res.inconc("schedule enumeration cut by time budget")
                return
    elif spec["kind"] == "sched-opt":
        pts = [pt for pt in all_points(spec["tier"]) if (pt["kind"] == "A" and pt.get("phase") == 2 and not pt.get("reader_holds_other")) or pt["kind"] == "C"]
        for j, pt in enumerate(pts):
            if j % 2 != spec["i"]:
                continue
            run_case({**pt, "pyopt": True}, res)
            if res.expired():
                res.inconc("schedule enumeration cut by time budget")
                return
    else:
        rng = rng_for(spec["seed"], "c18-stress", spec["i"])
        run_case({"kind": "S", "seed": rng.randrange(10**6), "writers": rng.randint(2, 4), "readers": rng.randint(4, 8),
                  "iters": spec["iters"], "yield_p": rng.choice([0.0, 0.01, 0.03]), "typed": spec["i"] % 2 == 1,
                  "soft_s": 60 if spec["tier"] == "quick" else 240}, res)


def post_merge(total):
    keys = [k for k in total.counters if k.startswith("interleaving:")]
    total.counters["distinct_interleavings_observed"] = len(keys)
    for k in keys:
        del total.counters[k]


def summarize(total):
    return {"distinct_interleavings_observed": total.counters.get("distinct_interleavings_observed", 0),
            "schedule_cells": {k[5:]: v for k, v in total.counters.items() if k.startswith("cell:")},
            "stress_operations": {k[10:]: v for k, v in total.counters.items() if k.startswith("stress_op:")}}
