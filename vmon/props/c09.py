"""C09 - searches return exactly the matching nodes, in order, within the limit;
index access resolves node_id, then data_id, then data.

Monitor: result vs. definition.  Expected = pre-order scan of the branch (from
children lists) with re.fullmatch / the predicate; tree[key] by a resolution table.
"""

from __future__ import annotations

import functools
import operator
import re

from .. import gen
from ..core import CaseTimeout, case_deadline, rng_for, short_tb, note_exc

PROP = "C09"
LEVEL = "exploration"
RULE = ("case = (forest shape, data flavour in {str with clones, int data with explicit node ids, str with explicit "
        "data ids}, seed of the labeling); per case: every pattern/predicate x start in {tree, every node} x add_self "
        "x limit k in {None,1,2,|m|,|m|+1}, and every key kind for tree[key] / del tree[key] / in; all forests up to "
        "the bound x 3 flavours, random larger; non-trivial = >= 4 nodes and at least one clone group or id/key overlap")
ASSUMPTIONS = [
    "name = str(data); pattern semantics = re.fullmatch on the name",
    "index-path results (data/data_id lookups) are compared as identity sets; pattern/predicate results as sequences",
]
MECH = ["nutree.node:Node._search", "nutree.node:Node.find_all", "nutree.node:Node.find_first",
        "nutree.tree:Tree.find_all", "nutree.tree:Tree.find_first", "nutree.tree:Tree.__getitem__",
        "nutree.tree:Tree.__delitem__", "nutree.tree:Tree.__contains__"]
MIN_NONTRIVIAL = {"quick": 200, "thorough": 2000}
EXHAUSTIVE = {"quick": True, "thorough": True}

STR_ALPH = ["a", "b", "ab", "abc", "B", "c", "a\nb"]  # (a name with a line break: `.` does not match it)
# a flagged search comes *before* the plain search with the same expression (pattern caches must honour the flags)
PATTERNS = ["\u00ab[ab]\u00bb", ["\u00aba.*", int(re.I)], ["a", int(re.I)], "a", ["[ab]", int(re.I)], "[ab]", ["ab?", int(re.I)], ".*", "a|b", "ab?", "a.*", "x", "(?i)b", ["A", int(re.I)],
            ["a.", int(re.S)], "", "a+b*c?", ["b", int(re.I)], "b", "a.b", ["a.b", int(re.S)]]
FLAVOURS = ["str", "int", "ids"]


def _has_label(nd, labels=()):
    return str(nd.data) in labels


class _LeafTest:
    def __call__(self, nd):
        return not nd.children

    def inner(self, nd):
        return bool(nd.children)


class _Always:
    def __init__(self, nd):
        pass


def ident(lst):
    return [id(x) for x in lst]


class _StrKey(str):
    """A str subclass (as StrEnum members or typed ids are)."""


def idrule(case):
    """The id rule of the case's tree, stated by the harness: the default, or - for a tree class that overrides the
    documented extension point `calc_data_id()` as a *method* - the subclass's rule."""
    if case.get("sub"):
        return lambda data: hash(("s", data))
    return hash


def build(case):
    from nutree import Tree

    f = gen.decode(case["f"])
    rng = rng_for(case["seed"], "c09", case["f"], case["flavour"])
    n = gen.size(f)
    par = gen.parents(f)
    # a tree with an id hook that computes the default rule: lookups must behave exactly the same
    typed = bool(case.get("typed"))
    kind = (lambda i: "kab"[i % 3]) if typed else None  # siblings of interleaved kinds: searches are kind-blind
    rule = idrule(case)
    if case.get("sub"):
        from nutree.typed_tree import TypedTree

        class _Sub(TypedTree if typed else Tree):
            def calc_data_id(self, data):
                return hash(("s", data))

        t = _Sub("t")
    elif typed:
        from nutree.typed_tree import TypedTree

        t = gen.ext_classes()["XTypedTree"]("t") if case.get("ext") else TypedTree("t")
    elif case.get("ext"):
        # a node class of its own: always falsy, and a `name` that differs from str(data) - pattern searches match the *name*
        t = gen.ext_classes()["XTree"]("t")
    else:
        t = Tree("t", calc_data_id=(lambda tree, data: hash(data))) if case.get("hook") else Tree("t")
    fl = case["flavour"]
    if fl == "str":
        labs = gen.clone_labeling(rng, f, STR_ALPH) or [f"n{i}" for i in range(n)]
        nodes = gen.build(t, f, lambda i: labs[i], kind=kind)
    elif fl == "int":
        # -1 and 2**61+5 are ints whose default id differs from the value (hash(-1) == -2, hash(2**61+5) == 6)
        labs = gen.clone_labeling(rng, f, [1, 2, 3, 4, 5, -1, 2**61 + 5, 0]) or list(range(100, 100 + n))
        nids = rng.sample(range(1, 12), min(n, 11)) + list(range(50, 50 + n))
        nodes = []
        # explicit node ids that may coincide with other nodes' data (= default data_id for ints)
        cnt = [0]

        def rec(parent, kids):
            for k in kids:
                i = cnt[0]
                cnt[0] += 1
                kw = {"node_id": nids[i]} if rng.random() < 0.6 else {}
                if typed:
                    kw["kind"] = kind(i)
                nd = parent.add(labs[i], **kw)
                nodes.append(nd)
                rec(nd, k)

        rec(t._root, f)
    else:  # ids: str data, explicit data ids that may equal other nodes' data
        labs = []
        ids = []
        for i in range(n):
            used = {ids[j] for j in range(i) if par[j] == par[i]}
            for _ in range(50):
                lab = rng.choice(STR_ALPH)
                did = rng.choice([None, None, rng.choice(STR_ALPH), rng.randint(1, 5)])
                eff = rule(lab) if did is None else did
                if eff not in used:
                    break
            else:
                lab, did, eff = f"n{i}", None, rule(f"n{i}")
            labs.append(lab)
            ids.append(eff)
        expl = [None if ids[i] == rule(labs[i]) else ids[i] for i in range(n)]
        nodes = gen.build(t, f, lambda i: labs[i], data_id=lambda i: expl[i], kind=kind)
    if case.get("prelude"):
        nodes = prelude(t, nodes, rng)
    return t, nodes


def prelude(t, nodes, rng):
    """A few mutations before the searches, so that the index paths are exercised on a tree
    with a history (re-labelled clones, removed and moved nodes).  Everything the oracle needs
    is re-read from the tree afterwards."""
    from nutree import TreeError

    gen.warm_queries(t)
    for _ in range(4):
        live = list(t)
        if not live:
            break
        n = rng.choice(live)
        try:
            r = rng.random()
            if r < 0.45:
                clones = [x for x in live if x.is_clone()]
                if clones:
                    n = rng.choice(clones)
                new = rng.choice([x.data for x in live] + ["zz", "b"])
                n.set_data(new, with_clones=rng.choice([False, False, True]))
            elif r < 0.65:
                n.remove()
            elif r < 0.85:
                tgt = rng.choice(live + [t])
                n.move_to(tgt)
            elif r < 0.93 or not __debug__:  # (under `python -O` the refusals that are assert statements do not exist)
                n.add(rng.choice(STR_ALPH + [1, 2]))
            else:
                # refused calls must not leave anything behind that a lookup could find
                other = rng.choice(live)
                rng.choice([lambda: n.add("ghost-a", before=other if other.parent is not n else n),
                            lambda: n.add(other, deep=True, data_id="ghost-id"),
                            lambda: t.add("ghost-b", node_id=n.node_id),
                            lambda: n.add(n.children[0].data if n.children else "ghost-c", before="garbage")])()
        except (TreeError, ValueError, NotImplementedError, AssertionError, TypeError, AttributeError):
            pass  # (AttributeError: a typed tree's refusal of a used node_id fails while formatting its message)
    out = []

    def rec(h):
        for c in h.children:
            out.append(c)
            rec(c)

    rec(t)
    return out


def run_case(case, res):
    from nutree import AmbiguousMatchError

    t, nodes = build(case)
    rule = idrule(case)
    f = gen.decode(case["f"])
    n = len(nodes)
    bad = []
    # independent pre-order and descendants from children lists
    order = []

    def rec(lst):
        for c in lst:
            order.append(c)
            rec(list(c.children))

    rec(list(t.children))
    ids = [x.data_id for x in order]
    has_clone = len(set(ids)) < len(ids)
    nontrivial = n >= 4 and (has_clone or case["flavour"] != "str")
    res.case(case, nontrivial=nontrivial)

    def desc(x):
        out = []
        for c in x.children:
            out.append(c)
            out += desc(c)
        return out

    def chk_seq(name, got, exp):
        res.count("seq_queries")
        if not isinstance(got, list) or ident(got) != ident(exp):
            bad.append(f"{name}: got {got!r}, expected {exp!r}")

    def chk_is(name, got, exp):
        res.count("single_queries")
        if got is not exp:
            bad.append(f"{name}: got {got!r}, expected {exp!r}")

    def attempt(fn):
        try:
            return fn()
        except Exception as e:
            return ("EXC", type(e).__name__)

    try:
        with case_deadline(40):
            starts = [None] + order
            preds = [("lab-in-ab", lambda nd: str(nd.data) in ("a", "b", "1", "2")),
                     ("leaf", lambda nd: not nd.children), ("none", lambda nd: False),
                     # predicates that return values: truthiness decides ('' / [] / () / 0 are "no match")
                     ("children-list", lambda nd: list(nd.children)), ("name-stripped", lambda nd: str(nd.data).strip("ab")),
                     ("meta-tuple", lambda nd: nd.get_meta("tags", ())), ("count", lambda nd: len(nd.children)),
                     # predicates that are callable *objects*: a partial, an instance with __call__, a bound method of a user
                     # object, a class (its instances are truthy: matches everything)
                     ("partial", functools.partial(_has_label, labels=("a", "B", "3"))), ("callable-instance", _LeafTest()),
                     ("bound-method", _LeafTest().inner), ("methodcaller", operator.methodcaller("is_leaf")), ("class", _Always)]
            for start in starts:
                for add_self in ([False] if start is None else [False, True]):
                    sub = order if start is None else ([start] if add_self else []) + desc(start)
                    matchers = [(p, (lambda nd, p=p: re.fullmatch(p, gen.expected_name(nd)) if isinstance(p, str) else re.fullmatch(p[0], gen.expected_name(nd), p[1])),
                                 p if isinstance(p, str) else (tuple(p) if pi % 2 else list(p))) for pi, p in enumerate(PATTERNS)]  # (regex, flags) as tuple or list
                    matchers += [(nm, fn, fn) for nm, fn in preds]
                    for nm, fn, arg in matchers:
                        exp = [x for x in sub if fn(x)]
                        for k in [None, 1, 2, len(exp), len(exp) + 1]:
                            if k == 0:
                                continue
                            if start is None:
                                got = attempt(lambda: t.find_all(match=arg, max_results=k))
                            else:
                                got = attempt(lambda: start.find_all(match=arg, add_self=add_self, max_results=k))
                            chk_seq(f"find_all(match={nm!r}, start={'tree' if start is None else next(i for i, o in enumerate(order) if o is start)}, add_self={add_self}, max_results={k})",
                                    got, exp if k is None else exp[:k])
                        if start is None:
                            chk_is(f"tree.find_first(match={nm!r})", attempt(lambda: t.find_first(match=arg)), exp[0] if exp else None)
                            chk_is(f"tree.find(match={nm!r})", attempt(lambda: t.find(match=arg)), exp[0] if exp else None)
                        elif not add_self:
                            chk_is(f"node.find_first(match={nm!r})", attempt(lambda: start.find_first(match=arg)), exp[0] if exp else None)
            # ---- lookups by data / data_id in a branch, with limits -------------
            for start in starts[: 1 + min(len(order), 4)]:
                for did in sorted(set(ids), key=repr)[:6]:
                    sub = order if start is None else desc(start)
                    S = [x for x in sub if x.data_id == did]
                    for k in [None, 1, 2, len(S) + 1]:
                        if start is None:
                            got = attempt(lambda: t.find_all(data_id=did, max_results=k))
                        else:
                            got = attempt(lambda: start.find_all(data_id=did, max_results=k))
                        res.count("id_queries")
                        if not isinstance(got, list):
                            bad.append(f"find_all(data_id={did!r}, max_results={k}) -> {got!r}")
                            continue
                        want = len(S) if k is None else min(k, len(S))
                        if len(got) != want or len(set(ident(got))) != len(got) or not set(ident(got)) <= set(ident(S)):
                            bad.append(f"find_all(data_id={did!r}, max_results={k}) from {'tree' if start is None else 'node'}: got {got!r}, matches are {S!r}")
            # ---- lookups by data object, aliases `find` ------------------------------------
            for x in order[:8]:
                want = [y for y in order if y.data_id == rule(x.data)]  # id rule of this tree
                for nm, fn in (("tree.find_all(data)", lambda: t.find_all(x.data)),):
                    got = attempt(fn)
                    res.count("data_queries")
                    if not isinstance(got, list) or sorted(ident(got)) != sorted(ident(want)):
                        bad.append(f"{nm} for {x.data!r}: got {got!r}, nodes with that id: {want!r}")
                for nm, fn in (("tree.find_first(data)", lambda: t.find_first(x.data)), ("tree.find(data)", lambda: t.find(x.data)),
                               ("tree.find(data_id=)", lambda: t.find(data_id=rule(x.data)))):
                    got = attempt(fn)
                    res.count("data_queries")
                    if (got is None) != (not want) or (got is not None and not any(got is w for w in want)):
                        bad.append(f"{nm} for {x.data!r}: got {got!r}, nodes with that id: {want!r}")
                got = attempt(lambda: t.find(node_id=x.node_id))
                if got is not x:
                    bad.append(f"tree.find(node_id={x.node_id}) -> {got!r}")
                for start in order[:4]:
                    sub = desc(start)
                    w2 = [y for y in sub if y.data_id == rule(x.data)]
                    if True:  # (falsy data objects - 0 - are data like any other)
                        got = attempt(lambda: start.find_all(x.data))
                        res.count("data_queries")
                        if not isinstance(got, list) or ident(got) != ident(w2):
                            bad.append(f"node.find_all({x.data!r}) below #{next(i for i, o in enumerate(order) if o is start)}: got {got!r}, expected {w2!r}")
                        for nm in ("find_first", "find"):
                            got = attempt(lambda: getattr(start, nm)(x.data))
                            if got is not (w2[0] if w2 else None):
                                bad.append(f"node.{nm}({x.data!r}): got {got!r}, expected {w2[0] if w2 else None!r}")
                    got = attempt(lambda: start.find(match=lambda nd: nd is x))
                    if got is not (x if any(x is y for y in sub) else None):
                        bad.append(f"node.find(match=<is x>): got {got!r}")
            # ---- results belong to the caller: emptying them must not change what index access answers afterwards ----
            for x in order[:6]:
                for r in (attempt(lambda: t.find_all(x.data)), attempt(lambda: t.find_all(data_id=x.data_id))):
                    if isinstance(r, list):
                        r.clear()
                        res.count("results_emptied_by_caller")
            for absent in ("zz-absent-1", 987001):
                r = attempt(lambda: t.find_all(absent))
                if isinstance(r, list) and not r:
                    r.extend(order[:2])  # the caller collects other things in the (empty) list it was given
                    res.count("empty_results_extended_by_caller")
                    r2 = attempt(lambda: t.find_all("zz-absent-2"))
                    r3 = attempt(lambda: t.find_all(data_id="zz-absent-3"))
                    if r2 != [] or r3 != []:
                        bad.append(f"after the caller extended an empty result, lookups without a match return {r2!r} / {r3!r}")
            # ---- index access -----------------------------------------------------
            keys = []
            for x in order:
                keys += [x.node_id, x.data_id, x.data]
            keys += ["zz", 987654, "a", "b", 1, 2, 3, 4, 5, -1, -2, 6, 2**61 + 5, "ghost-a", "ghost-b", "ghost-c", "ghost-id", 0, ""]  # 0: the invisible root's id
            seen = set()
            for key in keys:
                if (type(key), key) in seen or isinstance(key, bool):
                    continue
                seen.add((type(key), key))
                if isinstance(key, (int, str)) and len(seen) % 2:
                    # an earlier search for this value *as an id* (usually without a hit) must not change what index access
                    # and membership answer for it
                    attempt(lambda: t.find_all(data_id=key))
                    attempt(lambda: t.find_first(data_id=key))
                    res.count("id_searches_before_index_access")
                by_nid = [x for x in order if isinstance(key, int) and x.node_id == key]
                by_did = [x for x in order if isinstance(key, (int, str)) and x.data_id == key]
                by_data = [x for x in order if x.data_id == rule(key)]
                if by_nid:
                    exp = by_nid[0] if len(by_nid) == 1 else ("EXC", "AmbiguousMatchError")
                    cls = "node_id"
                elif by_did:
                    exp = by_did[0] if len(by_did) == 1 else ("EXC", "AmbiguousMatchError")
                    cls = "data_id"
                elif by_data:
                    exp = by_data[0] if len(by_data) == 1 else ("EXC", "AmbiguousMatchError")
                    cls = "data"
                else:
                    exp = ("EXC", "KeyError")
                    cls = "absent"
                got = attempt(lambda: t[key])
                res.count(f"getitem:{cls}:{'amb' if exp == ('EXC', 'AmbiguousMatchError') else 'one' if not isinstance(exp, tuple) else 'none'}")
                if (got is not exp) if not isinstance(exp, tuple) else (got != exp):
                    bad.append(f"tree[{key!r}] ({cls}): got {got!r}, expected {exp!r}")
                expin = bool(by_data)
                gotin = attempt(lambda: key in t)
                if gotin is not expin:
                    bad.append(f"{key!r} in tree: got {gotin!r}, expected {expin!r}")
            # unhashable data objects (dicts) on a tree with an id hook: the object itself is a key like any other
            from nutree import Tree as _HT

            ht = _HT("hook", calc_data_id=lambda tree, d: d["k"] if isinstance(d, dict) else hash(d))
            recs = [{"k": f"rec{i}", "payload": [i]} for i in range(4)]
            hn = [ht.add(recs[0]), ht.add(recs[1])]
            hn.append(hn[0].add(recs[2]))
            hn.append(hn[1].add(recs[2]))  # a clone
            for rec, exp in ((recs[0], hn[0]), (recs[1], hn[1]), (recs[2], ("EXC", "AmbiguousMatchError")), (recs[3], ("EXC", "KeyError"))):
                got = attempt(lambda: ht[rec])
                res.count("getitem:unhashable_data")
                if (got is not exp) if not isinstance(exp, tuple) else (got != exp):
                    bad.append(f"tree[<dict record {rec['k']}>] on a tree with an id hook: got {got!r}, expected {exp!r}")
                if attempt(lambda: rec in ht) is not (not isinstance(exp, tuple) or exp[1] == "AmbiguousMatchError"):
                    bad.append(f"<dict record {rec['k']}> in tree: wrong answer")
            # a hook that only understands the tree's own records (anything else makes it raise): keys that *are* ids of nodes
            # are resolved without asking the hook about the key
            st = _HT("strict-hook", calc_data_id=lambda tree, d: d["k"])
            sn = [st.add(recs[0]), st.add({"k": 4711, "payload": []})]
            sn.append(sn[0].add(recs[2]))
            sn.append(sn[1].add(recs[2]))
            for key, exp in (("rec0", sn[0]), (4711, sn[1]), ("rec2", ("EXC", "AmbiguousMatchError")), (recs[0], sn[0]), (sn[1].node_id, sn[1])):
                got = attempt(lambda: st[key])
                res.count("getitem:strict_hook")
                if (got is not exp) if not isinstance(exp, tuple) else (got != exp):
                    bad.append(f"tree[{key!r}] on a tree whose id hook only accepts its own records: got {got!r}, expected {exp!r}")
            # data objects that happen to be callable (functions of a call graph, classes of a hierarchy): looked up by data like
            # any other object - only `match=` takes a predicate
            ct = _HT("callables")
            cdata = [len, int, _has_label, _LeafTest]
            cn = [ct.add(cdata[0]), ct.add(cdata[1])]
            cn.append(cn[0].add(cdata[2]))
            cn.append(cn[1].add(cdata[2]))  # a clone
            for d, hits in ((cdata[0], [cn[0]]), (cdata[1], [cn[1]]), (cdata[2], [cn[2], cn[3]]), (cdata[3], [])):
                got = attempt(lambda: ct.find_all(d))
                res.count("lookups_of_callable_data")
                if not isinstance(got, list) or ident(got) != ident(hits):
                    bad.append(f"find_all(<callable data {getattr(d, '__name__', d)}>): got {got!r}, expected {hits!r}")
                g1 = attempt(lambda: ct.find_first(d))
                if g1 is not (hits[0] if hits else None):
                    bad.append(f"find_first(<callable data {getattr(d, '__name__', d)}>): got {g1!r}")
                if attempt(lambda: d in ct) is not bool(hits):
                    bad.append(f"<callable data {getattr(d, '__name__', d)}> in tree: wrong answer")
                gi = attempt(lambda: ct[d])
                expi = hits[0] if len(hits) == 1 else ("EXC", "AmbiguousMatchError") if hits else ("EXC", "KeyError")
                if (gi is not expi) if not isinstance(expi, tuple) else (gi != expi):
                    bad.append(f"tree[<callable data {getattr(d, '__name__', d)}>]: got {gi!r}, expected {expi!r}")
            if order:
                got = attempt(lambda: t[order[0]])
                if got != ("EXC", "ValueError"):
                    bad.append(f"tree[<node>] -> {got!r}, expected ValueError")
                res.count("getitem:nodekey")
                # a node is never a key - also a node of another tree or of another node class
                from nutree import Tree as _T
                from nutree.typed_tree import TypedTree as _TT

                for foreign in (_T("f").add(order[0].data), _TT("ft").add("x", kind="k"), gen.ext_classes()["XTree"]("fx").add("y"), t.system_root):
                    got = attempt(lambda: t[foreign])
                    if got != ("EXC", "ValueError"):
                        bad.append(f"tree[<{type(foreign).__name__} of another tree>] -> {got!r}, expected ValueError")
                    res.count("getitem:foreign_nodekey")
                # a key that is an instance of a str subclass behaves like the equal str
                for x in order[:6]:
                    if isinstance(x.data_id, str) or isinstance(x.data, str):
                        for plain in ([x.data_id] if isinstance(x.data_id, str) else []) + ([x.data] if isinstance(x.data, str) else []):
                            a, b = attempt(lambda: t[plain]), attempt(lambda: t[_StrKey(plain)])
                            res.count("getitem:str_subclass_key")
                            if (a is not b) if not isinstance(a, tuple) else (a != b):
                                bad.append(f"tree[{plain!r}] gives {a!r}, but the equal key of a str subclass gives {b!r}")
            # ---- del tree[key] on a fresh copy of the case ---------------------------
            for which in range(0 if case.get("prelude") else min(3, len(order))):
                # simple form: resolve, then delete by the same key and compare
                for sel in ("node_id", "data_id", "data"):
                    t3, nodes3 = build(case)
                    v3 = nodes3[(which * 7) % len(nodes3)]
                    key = getattr(v3, sel)
                    if isinstance(key, bool):
                        continue
                    r = attempt(lambda: t3[key])
                    before = t3.count
                    d = attempt(lambda: t3.__delitem__(key))
                    res.count("delitem")
                    if isinstance(r, tuple):
                        if d != r or t3.count != before:
                            bad.append(f"del tree[{key!r}]: lookup gives {r!r} but del gives {d!r} (count {before}->{t3.count})")
                    else:
                        gone = 1 + len(desc_static(r, nodes3, case))
                        if d is not None or t3.count != before - gone or any(x is r for x in walk(t3)):
                            bad.append(f"del tree[{key!r}]: result {d!r}, count {before}->{t3.count}, expected -{gone}")
    except CaseTimeout:
        res.inconc("case watchdog fired")
        return
    except Exception:
        note_exc(res, bad, "exception escaped from the library: ")
    if bad:
        res.violation(case, "; ".join(bad[:3]), n_bad=len(bad))


def walk(t):
    out = []

    def rec(lst):
        for c in lst:
            out.append(c)
            rec(list(c.children))

    rec(list(t.children))
    return out


def desc_static(node, nodes, case):
    """descendants of `node` as of build time (from the case's shape)."""
    f = gen.decode(case["f"])
    par = gen.parents(f)
    i = next(k for k, x in enumerate(nodes) if x is node)
    out = []
    for j in range(len(par)):
        p = par[j]
        while p != -1:
            if p == i:
                out.append(j)
                break
            p = par[p]
    return out


NSHARDS = 16


def shards(tier, seed):
    bound = 6 if tier == "quick" else 8
    out = [{"name": f"enum{i}", "kind": "enum", "i": i, "bound": bound, "budget_s": 150 if tier == "quick" else 3600}
           for i in range(NSHARDS)]
    out += [{"name": f"rand{i}", "kind": "rand", "i": i, "count": 20 if tier == "quick" else 3000,
             "budget_s": 60 if tier == "quick" else 3600} for i in range(NSHARDS)]
    # the random cases once more under `python -O` (lookups must not depend on side effects of assert statements)
    out += [{"name": f"opt{i}", "kind": "rand", "i": 200 + i, "count": 20 if tier == "quick" else 800, "pyopt": True,
             "budget_s": 60 if tier == "quick" else 1800} for i in range(2)]
    return out


def run_shard(spec, res):
    seed = spec["seed"]
    if spec["kind"] == "enum":
        k = 0
        for n in range(0, spec["bound"] + 1):
            for f in gen.forests(n):
                k += 1
                if k % NSHARDS != spec["i"]:
                    continue
                for fl in FLAVOURS:
                    run_case({"f": gen.code(f), "flavour": fl, "seed": seed}, res)
                    if n >= 3:
                        run_case({"f": gen.code(f), "flavour": fl, "seed": seed, "prelude": True}, res)
                    if n >= 2 and k % 2:
                        run_case({"f": gen.code(f), "flavour": fl, "seed": seed, "hook": True}, res)
                    if n >= 2 and k % 3 == 1:
                        run_case({"f": gen.code(f), "flavour": fl, "seed": seed, "sub": True, "typed": k % 2 == 0, "prelude": k % 4 == 2}, res)
                    if n >= 2 and k % 2 == 0:
                        run_case({"f": gen.code(f), "flavour": fl, "seed": seed, "ext": True, "prelude": k % 4 == 0}, res)
                    if n >= 2 and k % 3 == 0:
                        run_case({"f": gen.code(f), "flavour": fl, "seed": seed, "typed": True, "ext": k % 2 == 0, "prelude": k % 4 == 1}, res)
                if res.expired():
                    res.count("exhaustive_cut")
                    res.inconc("enumeration cut by time budget")
                    return
    else:
        rng = rng_for(seed, "c09-rand", spec["i"])
        for j in range(spec["count"]):
            f = gen.random_forest(rng, rng.randint(6, 16))
            run_case({"f": gen.code(f), "flavour": rng.choice(FLAVOURS), "seed": rng.randrange(10**6), "prelude": rng.random() < (0.9 if spec.get("pyopt") else 0.5),
                      "hook": rng.random() < 0.3, "ext": rng.random() < 0.3, "typed": rng.random() < 0.25, "sub": rng.random() < 0.2, **({"pyopt": True} if spec.get("pyopt") else {})}, res)
            if res.expired():
                break


def summarize(total):
    return {"getitem_cells": {k[8:]: v for k, v in total.counters.items() if k.startswith("getitem:")}}
