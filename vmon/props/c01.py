"""C01 - the node graph stays a well-formed tree after any mutation history.

Monitor: invariant at quiescent points (wf_graph) after every depth-0 mutating call,
whether it returned or raised, on random hostile histories and on every single op
from every small state.
"""

from __future__ import annotations

from .. import hist
from ..core import rng_for

PROP = "C01"
LEVEL = "exploration"
RULE = ("case = one history: (seed, tree class, data flavour, id configuration, length <= 40) generated op by op from "
        "the live state with hostile arguments (move into own branch, equal siblings, nested clones, invalid positions), "
        "wf_graph evaluated after every call; plus one-step cases (state, op) for all forests up to the bound; "
        "non-trivial = >= 3 executed steps on a tree that reached >= 4 nodes and held a clone group; distinct by case")
ASSUMPTIONS = ["the set of removed nodes is derived from the documented meaning of the op on the pre-state (reference model)",
               "after a call whose outcome the documentation leaves open the model is re-synchronised from the real tree"]
MECH = ["nutree.node:Node.add_child", "nutree.node:Node.move_to", "nutree.node:Node.remove", "nutree.node:Node.remove_children",
        "nutree.tree:Tree._register", "nutree.tree:Tree._unregister", "nutree.node:Node.filter"]
MIN_NONTRIVIAL = {"quick": 10000, "thorough": 200000}
EXHAUSTIVE = {"quick": True, "thorough": True}
OWN = "C01"
PROFILE = "c01"


def run_idreuse(case, res):
    """Custom node_ids that are the addresses of objects that have since been freed: CPython hands such addresses out
    again, so a later node's default id (= id(node)) can coincide with a custom id that is still in use.  Whatever the
    library does with such an add (it may refuse it), no two reachable nodes may share a node_id and the id index has to
    stay in step with the nodes."""
    import gc

    from nutree import Tree
    from nutree.typed_tree import TypedTree

    from .. import wf

    rng = rng_for(case["seed"], "c01-idreuse")
    typed = case.get("typed", False)
    kw = {"kind": "k"} if typed else {}
    cls = TypedTree if typed else Tree
    t = cls("live")
    donor = cls("donor")
    dn = [donor.add(f"d{i}", **kw) for i in range(rng.randint(3, 12))]
    for n in list(dn)[: len(dn) // 2]:
        dn.append(n.add(f"dd{n.data}", **kw))
    holders = [t]
    for i, n in enumerate(dn):
        # the data is taken over under the node's old key (as code migrating nodes between trees does)
        new = rng.choice(holders).add(f"m{i}", node_id=n.node_id, **kw)
        holders.append(new)
    del donor, dn, n
    gc.collect()
    refused = collided = 0
    ids_in_use = {x.node_id for x in t}
    for j in range(rng.randint(10, 60)):
        try:
            new = rng.choice(holders).add(f"fresh{j}", **kw)
            if id(new) in ids_in_use:
                collided += 1
            holders.append(new)
        except Exception:
            # the reaction to a node_id that is already taken is a refusal (AssertionError in the plain classes; the typed
            # class trips over its own repr while formatting that message - still a refusal, and which type is not demanded)
            from ..core import exc_in_library

            if not exc_in_library():
                raise
            refused += 1
    res.count("idreuse_adds_refused", refused)
    res.count("idreuse_default_id_equals_custom_id", collided)
    res.case(case, nontrivial=True)
    errs, nodes = wf.wf_graph(t)
    if errs:
        res.violation(case, "[C01:wf_graph] after adds whose default node_id coincides with a custom node_id in use: " + "; ".join(errs[:3]))


def run_case(case, res):
    if case.get("kind") == "idreuse":
        return run_idreuse(case, res)
    if case.get("kind") == "repotests":
        return run_repotests({}, res)
    if case.get("kind") == "onestep":
        from . import c04
        return c04.run_onestep(case, res, own_prop=OWN)
    s = hist.run_history(case, res, own_prop=OWN)
    res.case(case, nontrivial=getattr(s, "nsteps", 0) >= 3 and s.max_nodes >= 4 and s.saw_clone)


NSHARDS = 16


def shards(tier, seed):
    cnt = 320 if tier == "quick" else 9000
    out = [{"name": f"hist{i}", "kind": "hist", "i": i, "count": cnt, "budget_s": 100 if tier == "quick" else 1500}
           for i in range(NSHARDS)]
    out.append({"name": "repotests", "kind": "repotests", "i": 0, "budget_s": 300, "cov": False})
    # the same kind of histories under `python -O`, restricted to calls the documentation allows (plus the refusals the library
    # raises explicitly): nothing may depend on the side effects of an assert statement
    out += [{"name": f"opt{i}", "kind": "hist", "i": 100 + i, "count": 120 if tier == "quick" else 3000, "pyopt": True,
             "budget_s": 100 if tier == "quick" else 1500} for i in range(4)]
    out.append({"name": "idreuse", "kind": "idreuse", "i": 0, "count": 150 if tier == "quick" else 5000, "budget_s": 300})
    bound, tb = (4, 3) if tier == "quick" else (5, 4)
    out += [{"name": f"one{i}", "kind": "one", "i": i, "bound": bound, "typed_bound": tb,
             "budget_s": 200 if tier == "quick" else 3000} for i in range(NSHARDS)]
    return out


def gen_cases(spec, profile):
    rng = rng_for(spec["seed"], profile, spec["i"])
    for j in range(spec["count"]):
        typed = rng.random() < 0.25
        case = {"seed": rng.randrange(10**9), "profile": profile, "flavour": rng.choice(hist.FLAVOURS),
                "idconf": rng.choice(["default", "default", "callback", "subclass"]), "typed": typed,
                "steps": rng.choice([5, 10, 20, 30, 40]), "hostile": True, "allow_unspec": True}
        if spec.get("pyopt"):
            case.update(pyopt=True, valid_only=True, hostile=False, allow_unspec=False)
        yield case


def run_repotests(spec, res):
    """The repository's own test-suite as an additional workload under the C01-C03 monitors."""
    import json, os, subprocess, sys, tempfile
    from .. import REPO, VERIF

    out = tempfile.mktemp(prefix="vmon-wf-", suffix=".json")
    env = dict(os.environ, VMON_WF_OUT=out, PYTHONPATH=VERIF + os.pathsep + REPO, PYTHONHASHSEED="0")
    try:
        r = subprocess.run([sys.executable, "-m", "pytest", "-q", "-p", "no:cacheprovider", "-o", "addopts=", "-p", "vmon.pytest_wf",
                            "--timeout=600", "tests"], cwd=REPO, env=env, capture_output=True, text=True, timeout=900)
        data = json.load(open(out))
    except Exception as e:
        res.inconc(f"repository tests under monitors could not be run: {e!r}")
        return
    finally:
        if os.path.exists(out):
            os.unlink(out)
    res.count("repotests_calls_monitored", data["counters"]["calls"])
    res.count("repotests_exitstatus", data["exitstatus"])
    case = {"kind": "repotests"}
    res.case(case, nontrivial=data["counters"]["calls"] > 100)
    for f in data["findings"]:
        if f["tag"].split(":")[0] == OWN:
            res.violation(case, f"[{f['tag']}] while running {f['test']}, after {f['after']}: {f['msg']}")
        else:
            res.count(f"context_finding:{f['tag']}")


def run_shard(spec, res):
    if spec["kind"] == "repotests":
        return run_repotests(spec, res)
    if spec["kind"] == "idreuse":
        rng = rng_for(spec["seed"], "c01-idreuse-shard")
        for j in range(spec["count"]):
            run_case({"kind": "idreuse", "seed": rng.randrange(10**9), "typed": j % 4 == 3}, res)
            if res.expired():
                break
        return
    if spec["kind"] == "one":
        from . import c04
        for case in c04.onestep_cases(spec["bound"], spec["typed_bound"], spec["i"], NSHARDS):
            run_case(case, res)
            if res.expired():
                res.count("exhaustive_cut")
                res.inconc("enumeration cut by time budget")
                return
        return
    for case in gen_cases(spec, PROFILE):
        run_case(case, res)
        if res.expired():
            break


def summarize(total):
    return {"op_outcomes": {k[3:]: v for k, v in total.counters.items() if k.startswith("op:")},
            "findings_of_other_properties_seen": {k[16:]: v for k, v in total.counters.items() if k.startswith("context_finding:")}}
