"""C04 - every mutation has exactly its documented effect and no other.

Monitor: history + executable model.  After every step the complete observable
state (node identities, data objects, ids, kinds, meta, parents, sibling order)
is compared with the independent reference model (vmon/model.py).
"""

from __future__ import annotations

import itertools

from .. import gen, hist
from .. import model as M
from ..core import CaseTimeout, case_deadline, rng_for, short_tb

PROP = "C04"
LEVEL = "exploration"
RULE = ("three kinds of cases: (a) one-step: (forest shape <= bound, labeling in {unique, clone pair, equal siblings with "
        "explicit ids}, tree class, one op with one argument tuple) - every op x every documented-valid argument combination "
        "(and the documented-invalid ones, which must be refused) from every such state; (b) two-step: (state with one or two clone "
        "pairs, first op that changes which nodes share an id, second op whose documented effect depends on id sharing) - all "
        "pairs up to the bound; (c) random histories of valid "
        "ops (<= 40 steps) on larger trees, 7 data flavours; non-trivial = one-/two-step on a state with >= 3 nodes, or a "
        "history with >= 3 steps that reached >= 4 nodes; distinct by case description")
ASSUMPTIONS = ["reference model written from docstrings/user guide (DESIGN.md appendix A)",
               "order among equal sort keys, meta of copied nodes, and integer positions outside 0..len-1 are unspecified"]
MECH = ["nutree.node:Node.add_child", "nutree.node:Node._calc_insert_pos", "nutree.typed_tree:TypedNode.add_child",
        "nutree.node:Node.append_child", "nutree.node:Node.prepend_child", "nutree.node:Node.prepend_sibling",
        "nutree.node:Node.append_sibling", "nutree.typed_tree:TypedNode.prepend_child", "nutree.typed_tree:TypedNode.prepend_sibling",
        "nutree.typed_tree:TypedNode.append_sibling", "nutree.node:Node.move_to", "nutree.node:Node.remove",
        "nutree.node:Node.remove_children", "nutree.tree:Tree.clear", "nutree.tree:Tree.__delitem__",
        "nutree.node:Node.sort_children", "nutree.tree:Tree.sort", "nutree.node:Node.set_data", "nutree.node:Node.rename",
        "nutree.node:Node.set_meta", "nutree.node:Node.clear_meta", "nutree.node:Node.update_meta"]
MIN_NONTRIVIAL = {"quick": 20000, "thorough": 150000}
EXHAUSTIVE = {"quick": True, "thorough": True}
OWN = "C04"
ROOT = hist.ROOT
LABELINGS = ["uniq", "clonepair", "eqsib"]


# --------------------------------------------------------------------------
# one-step machinery (shared with C01, C03, C13)
# --------------------------------------------------------------------------
def build_state(case):
    """Returns a Session holding the state described by (f, lab, typed)."""
    f = gen.decode(case["f"])
    par = gen.parents(f)
    n = len(par)
    lab = case["lab"]
    typed = bool(case.get("typed"))
    s = hist.Session(typed=typed, flavour="expl" if lab == "eqsib" else "str", seed=0)
    labels = [f"n{i}" for i in range(n)]
    ids = [None] * n
    if lab == "clonepair" and n >= 2:
        # make the last node a clone of an earlier node that is not its sibling/parent conflict
        for j in range(n - 1):
            if par[j] != par[n - 1]:
                labels[n - 1] = labels[j]
                break
    elif lab == "twopairs" and n >= 4:
        # two clone groups of two nodes each (the last two nodes repeat two earlier ones below other parents)
        used = set()
        for i in (n - 1, n - 2):
            for j in range(n - 2):
                if par[j] != par[i] and j not in used:
                    labels[i] = labels[j]
                    used.add(j)
                    break
    elif lab == "eqsib":
        labels = ["x"] * n
        ids = [f"id{i}" for i in range(n)]
    for i in range(n):
        op = {"op": "add", "parent": ROOT if par[i] == -1 else par[i] + 1, "data": labels[i]}
        if ids[i] is not None:
            op["data_id"] = ids[i]
        if typed:
            op["kind"] = "kab"[i % 3]
        fnd = s.step(op, monitors=False)
        if fnd:
            raise RuntimeError(f"state construction failed: {[(x.tag, x.msg) for x in fnd]}")
    s.log.clear()
    return s


def enum_ops(s, *, invalid=True):
    """All ops with all argument tuples from the model state of s (JSON-able)."""
    m = s.m
    nodes = m.all()
    typed = s.typed
    holders = [ROOT] + [x.uid for x in nodes]

    def befores(P_, exclude=None, allow_idx=True):
        K = [c for c in m.kids(P_) if c is not exclude]
        out = [None, False, True]
        if allow_idx:
            out += [["idx", i] for i in range(len(K))] or [["idx", 0]]
            out += [["idx", -i] for i in sorted({1, len(K)}) if K]
        out += [["node", c.uid] for c in K]
        if invalid:
            others = [x for x in nodes if not any(x is c for c in m.kids(P_))]
            if others:
                out.append(["node", others[0].uid])
            out.append(["raw", ["str", "float", "tuple"][len(K) % 3]])
        return out

    kinds = [None, "kz"] if typed else [None]
    # add
    for p in holders:
        P_ = s.mnode(p)
        for b in befores(P_):
            for kd in kinds[:1] if b is not None else kinds:
                op = {"op": "add", "parent": p, "data": "NEW", "before": b}
                if kd:
                    op["kind"] = kd
                yield op
        K = m.kids(P_)
        if K:
            c = K[0]
            op = {"op": "add", "parent": p, "data": c.data, "before": None}
            if c.data_id != m.rule(c.data):
                op["data_id"] = c.data_id
            yield op  # collision
        yield {"op": "add", "parent": p, "data": "NEW", "data_id": "EXPL"}
        for via in ("add_child",) + (("append_child", "prepend_child") if p != ROOT else ()):
            yield {"op": "add", "parent": p, "data": "NEW", "via": via,
                   "before": True if via == "prepend_child" else None}
    if typed and invalid:
        yield {"op": "add", "parent": holders[-1], "data": "NEW", "kind": 123}
    if not typed and nodes and invalid:
        yield {"op": "move_foreign", "node": nodes[0].uid, "to_tree": False, "idx": 0}
        yield {"op": "move_foreign", "node": nodes[-1].uid, "to_tree": True, "idx": 1}
    for x in nodes:
        for which in ("prepend_sibling", "append_sibling"):
            yield {"op": "sibling", "node": x.uid, "data": "NEW", "which": which}
            yield {"op": "sibling", "node": x.uid, "data": "NEW", "which": which, "data_id": "EXPL"}
    # node copies
    for src in nodes:
        for p in holders:
            P_ = s.mnode(p)
            for deep in (False, True):
                bs = [None, True] + ([["node", m.kids(P_)[-1].uid]] if m.kids(P_) else [])
                for b in bs:
                    op = {"op": "addnode", "parent": p, "src": src.uid, "deep": deep, "before": b}
                    if typed:
                        op["kind"] = src.kind  # the kind-less route is a listed C07 finding
                    yield op
                nid_op = {"op": "addnode", "parent": p, "src": src.uid, "deep": deep, "before": None, "node_id": 424242}
                if typed:
                    nid_op["kind"] = src.kind
                yield nid_op
                if not typed:
                    yield {"op": "addnode", "parent": p, "src": src.uid, "deep": deep, "before": None, "via": "copy_to"}
            if not typed:
                for deep in (False, True):
                    yield {"op": "copy_children", "parent": p, "src": src.uid, "deep": deep}
                    if p != ROOT:
                        for via in ("append_child", "prepend_child"):
                            yield {"op": "addnode", "via": via, "parent": p, "src": src.uid, "deep": deep}
        if not typed:
            # the sibling shortcuts with an existing node as source
            for sib in nodes:
                for via in ("append_sibling", "prepend_sibling"):
                    for deep in (None, True):
                        yield {"op": "addnode", "via": via, "sib": sib.uid, "src": src.uid, "deep": deep}
    # move
    for x in nodes:
        for tgt in holders:
            T_ = s.mnode(tgt)
            if not invalid and (m.inside(T_, x)):
                continue
            same_parent = m.parent_of(x) is T_
            for b in befores(T_, exclude=x, allow_idx=True):
                yield {"op": "move", "node": x.uid, "target": tgt, "before": b}
        if typed:
            break  # typed move_to is unsupported: one node is enough
    # remove & friends
    for x in nodes:
        for kc, wc in ((False, False), (True, False), (False, True), (True, True)):
            yield {"op": "remove", "node": x.uid, "keep_children": kc, "with_clones": wc}
        yield {"op": "remove_children", "node": x.uid}
        for key in ("node_id", "data_id", "data"):
            yield {"op": "del", "node": x.uid, "key": key}
    yield {"op": "remove_children", "node": ROOT}
    # sort
    for p in holders:
        if m.kids(s.mnode(p)):
            for key, rev, deep in itertools.product([None, "len", "str"], [False, True], [False, True]):
                yield {"op": "sort", "node": p, "key": key, "reverse": rev, "deep": deep}
    # set_data / rename
    for x in nodes:
        sibs = [c for c in m.kids(m.parent_of(x)) if c is not x]
        others = [y for y in nodes if y is not x and y.data_id != x.data_id]
        variants = [{"data": "NEW"}, {"data": "NEW", "data_id": "EXPL"}, {"data": None, "data_id": "EXPL"}, {"data": x.data}, {"data": None},
                    {"data": "NEWOBJ-SAME-ID", "data_id": x.data_id}]
        if sibs:
            v = {"data": sibs[0].data}
            if sibs[0].data_id != m.rule(sibs[0].data):
                v["data_id"] = sibs[0].data_id
            variants.append(v)
        if others:
            v = {"data": others[-1].data}
            if others[-1].data_id != m.rule(others[-1].data):
                v["data_id"] = others[-1].data_id
            variants.append(v)
        for v in variants:
            for wc in ("omit", True, False):
                op = {"op": "set_data", "node": x.uid, **v}
                if wc != "omit":
                    op["with_clones"] = wc
                yield op
        yield {"op": "rename", "node": x.uid, "data": "RENAMED"}
        # meta
        yield {"op": "set_meta", "node": x.uid, "key": "k", "value": 1}
        yield {"op": "set_meta", "node": x.uid, "key": "k", "value": None}
        for falsy in (0, False, "", []):
            yield {"op": "set_meta", "node": x.uid, "key": "k", "value": falsy}
            yield {"op": "set_meta", "node": x.uid, "key": "new", "value": falsy}
        yield {"op": "update_meta", "node": x.uid, "values": {"a": 1}, "replace": False}
        yield {"op": "update_meta", "node": x.uid, "values": {"a": 1}, "replace": True}
        yield {"op": "clear_meta", "node": x.uid, "key": None}
        yield {"op": "clear_meta", "node": x.uid, "key": "k"}
    # filter (T/F): all keep-subsets for small states
    if len(nodes) <= 4:
        for base in holders:
            sub = [x.uid for x in (nodes if base == ROOT else m.branch(s.mnode(base))[1:])]
            for r in range(len(sub) + 1):
                for keep in itertools.combinations(sub, r):
                    yield {"op": "filter", "node": base, "keep": list(keep)}
    # filter with the full verdict vocabulary: every node in turn answered K / X / S / Z, the others T or F
    if nodes:
        for base in holders[:3]:
            sub = [x.uid for x in (nodes if base == ROOT else m.branch(s.mnode(base))[1:])]
            for special in sub:
                for v in "KXSZ":
                    for other in "TF":
                        yield {"op": "filterv", "node": base, "verdicts": {str(u): (v if u == special else other) for u in sub},
                               "raise": (special + len(v)) % 2 == 0}
    # add a foreign tree
    if not typed:
        for p in holders:
            P_ = s.mnode(p)
            for b in [None, True] + ([["node", m.kids(P_)[0].uid], ["idx", len(m.kids(P_)) - 1]] if m.kids(P_) else []):
                yield {"op": "addtree", "parent": p, "spec": [["fa", None, [["fa1", None, []]]], ["fb", None, []], ["fc", None, []]], "deep": None, "before": b}
            yield {"op": "addtree", "parent": p, "spec": [["fa", None, [["fa1", None, []]]], ["fb", None, []]], "deep": True, "before": None, "via": "copy_to"}
            for b in [None, True, ["idx", 0]] + ([["node", m.kids(P_)[-1].uid]] if m.kids(P_) else []):
                yield {"op": "addtree", "parent": p, "spec": [], "deep": None, "before": b}  # an empty tree
            if m.kids(P_):
                yield {"op": "addtree", "parent": p, "spec": [["fa", None, []], [m.kids(P_)[0].data, None if m.kids(P_)[0].data_id == m.rule(m.kids(P_)[0].data) else m.kids(P_)[0].data_id, []]], "deep": None, "before": None}


def prepare_meta(s, case):
    """Optionally give every node some metadata first (so bystander meta is observable)."""
    if case.get("meta"):
        for x in s.m.all():
            s.step({"op": "set_meta", "node": x.uid, "key": "k", "value": x.uid}, monitors=False)
            s.step({"op": "set_meta", "node": x.uid, "key": "m", "value": "v"}, monitors=False)
        s.log.clear()


def run_onestep(case, res, *, own_prop, extra_props=()):
    try:
        with case_deadline(30):
            s = build_state(case)
            prepare_meta(s, case)
            n_nodes = len(s.m.all())
            op = case["opd"]
            findings = s.step(op)
    except CaseTimeout:
        res.inconc("case watchdog fired")
        return
    except Exception:
        res.inconc("one-step harness error: " + short_tb())
        return
    res.case(case, nontrivial=n_nodes >= 3)
    for k, v in s.counters.items():
        res.count(k, v)
    for d in s.state_digests:
        res.observe("tree_states_after_a_step", d)
    for f in findings:
        if f.prop == own_prop or f.prop in extra_props:
            res.violation(case, f"[{f.tag}] {f.msg}", history=s.log[-3:])
        else:
            res.count(f"context_finding:{f.tag}")


FIRST_OPS = ("set_data", "rename", "remove", "move", "add", "addnode")


def _index_dependent(opd):
    """Second steps whose documented effect depends on which nodes share an id."""
    return opd.get("with_clones") is True or (opd["op"] == "set_data" and "with_clones" not in opd) or opd["op"] == "addnode"


def twostep_cases(bound, typed_bound, shard_i, nshards, full_bound=0):
    """(state, first op that changes which nodes share an id, second op whose effect depends on it)."""
    k = 0
    for n in range(2, bound + 1):
        for f in gen.forests(n):
            for lab in ("clonepair", "twopairs"):
                if lab == "twopairs" and n < 4:
                    continue
                for typed in ([False, True] if n <= typed_bound else [False]):
                    k += 1
                    if k % nshards != shard_i:
                        continue
                    base = {"kind": "twostep", "f": gen.code(f), "lab": lab, "typed": typed, "meta": False}
                    first_ops = FIRST_OPS if n <= full_bound else ("set_data", "rename")
                    firsts = [o for o in enum_ops(build_state(base), invalid=False) if o["op"] in first_ops
                              and (o["op"] not in ("add", "addnode") or o.get("before") is None)]
                    for opd in firsts:
                        s = build_state(base)
                        try:
                            if s.step(opd, monitors=False) or not s.last_ok:
                                continue
                        except Exception:
                            continue
                        for opd2 in enum_ops(s, invalid=False):
                            if _index_dependent(opd2):
                                yield {**base, "opd": opd, "opd2": opd2}


def run_twostep(case, res):
    try:
        with case_deadline(30):
            s = build_state(case)
            first = s.step(case["opd"], monitors=False)
            if first or not s.last_ok:
                res.count("twostep_first_not_applied")
                return
            s.log[:] = s.log[-1:]
            n_nodes = len(s.m.all())
            findings = s.step(case["opd2"])
    except CaseTimeout:
        res.inconc("case watchdog fired")
        return
    except Exception:
        res.inconc("two-step harness error: " + short_tb())
        return
    res.case(case, nontrivial=n_nodes >= 3)
    res.count("twostep_cases")
    for k, v in s.counters.items():
        res.count(k, v)
    for d in s.state_digests:
        res.observe("tree_states_after_a_step", d)
    for f in findings:
        if f.prop == OWN:
            res.violation(case, f"[{f.tag}] {f.msg}", history=s.log[-3:])
        else:
            res.count(f"context_finding:{f.tag}")


def onestep_cases(bound, typed_bound, shard_i, nshards, *, invalid=True):
    k = 0
    for n in range(0, bound + 1):
        for f in gen.forests(n):
            for lab in LABELINGS:
                if lab != "uniq" and n < 2:
                    continue
                for typed in ([False, True] if n <= typed_bound else [False]):
                    k += 1
                    if k % nshards != shard_i:
                        continue
                    base = {"kind": "onestep", "f": gen.code(f), "lab": lab, "typed": typed, "meta": (k // nshards) % 2 == 0}
                    s = build_state(base)
                    for opd in enum_ops(s, invalid=invalid):
                        yield {**base, "opd": opd}


class _Lbl:
    """data object whose natural order (`__lt__`, by number) differs from the order of its display name"""

    def __init__(self, num):
        self.num = num

    def __str__(self):
        return f"item-{self.num}"

    def __lt__(self, other):
        return self.num < other.num

    def __repr__(self):
        return f"_Lbl({self.num})"


def run_sortmix(case, res):
    """sort() / sort_children() with the default key order every level by the node *name* (the string form of the data):
    trees whose levels hold data of different types (strings above, numbers or objects below, and the other way round)."""
    from nutree import Tree
    from nutree.typed_tree import TypedTree

    rng = rng_for(case["seed"], "c04-sortmix")
    typed = case.get("typed", False)
    t = (TypedTree if typed else Tree)("t")
    kw = (lambda: {"kind": rng.choice(["ka", "kb"])}) if typed else (lambda: {})
    pools = [lambda: rng.sample(["b", "a", "c", "B", "10", "9"], 4), lambda: rng.sample([9, 10, 100, 1, 25, 2], 4),
             lambda: [_Lbl(x) for x in rng.sample([9, 10, 100, 1, 25], 4)], lambda: rng.sample([1.5, 10.25, 9.0, 100.0], 3)]
    order = rng.sample(range(len(pools)), 3)
    bad = []
    try:
        level = [t]
        for depth, pi in enumerate(order):
            nxt = []
            for h in level[:3]:
                for d in pools[pi]():
                    nxt.append(h.add(d, **kw()))
            level = nxt

        def snapshot(h):
            return [(id(c), snapshot(c)) for c in h.children]

        def expect_sorted(h, deep, reverse, top=True):
            kids = list(h.children)
            names = [gen.expected_name(c) for c in kids]
            if (top or deep) and names != sorted(names, reverse=reverse):
                bad.append(f"children of {h!r} are not sorted by name (reverse={reverse}): {names}")
            if deep:
                for c in kids:
                    expect_sorted(c, deep, reverse, False)

        deep = case["deep"]
        reverse = case["reverse"]
        start = t if case["start"] == "tree" else rng.choice(list(t.children))
        before_all = sorted(id(n) for n in t)
        untouched = None if deep else [snapshot(c) for c in start.children]
        if start is t:
            t.sort(reverse=reverse, **({} if deep else {"deep": False}))
        else:
            start.sort_children(reverse=reverse, deep=deep)
        eff_deep = deep
        expect_sorted(start, eff_deep, reverse)
        if sorted(id(n) for n in t) != before_all:
            bad.append("sort changed the set of nodes")
        if untouched is not None and sorted(map(repr, untouched)) != sorted(repr(snapshot(c)) for c in start.children):
            bad.append("a sort that is not deep re-ordered a deeper level")
        res.count("sortmix_cases")
        res.case(case, nontrivial=True)
    except Exception:
        from ..core import exc_in_library, short_tb

        if not exc_in_library():
            res.inconc("sortmix harness error: " + short_tb())
            return
        bad.append("sort with the default key raised: " + short_tb(4))
    if bad:
        res.violation(case, "[C04:model_mismatch] " + "; ".join(bad[:2])[:1500])


def run_case(case, res):
    if case.get("kind") == "sortmix":
        return run_sortmix(case, res)
    if case.get("kind") == "onestep":
        return run_onestep(case, res, own_prop=OWN)
    if case.get("kind") == "twostep":
        return run_twostep(case, res)
    s = hist.run_history(case, res, own_prop=OWN)
    res.case(case, nontrivial=getattr(s, "nsteps", 0) >= 3 and s.max_nodes >= 4)


NSHARDS = 16


def shards(tier, seed):
    bound, tb = (4, 3) if tier == "quick" else (5, 4)
    out = [{"name": f"one{i}", "kind": "one", "i": i, "bound": bound, "typed_bound": tb,
            "budget_s": 600 if tier == "quick" else 3000} for i in range(NSHARDS)]
    out += [{"name": f"two{i}", "kind": "two", "i": i, "bound": 4 if tier == "quick" else 5, "typed_bound": 3 if tier == "quick" else 4,
             "budget_s": 900 if tier == "quick" else 5000} for i in range(NSHARDS)]
    out += [{"name": f"hist{i}", "kind": "hist", "i": i, "count": 150 if tier == "quick" else 6000,
             "budget_s": 100 if tier == "quick" else 1500} for i in range(NSHARDS)]
    out.append({"name": "sortmix", "kind": "sortmix", "i": 0, "count": 120 if tier == "quick" else 6000, "budget_s": 100 if tier == "quick" else 900})
    return out


def gen_hist_cases(spec):
    rng = rng_for(spec["seed"], "c04-hist", spec["i"])
    for j in range(spec["count"]):
        yield {"seed": rng.randrange(10**9), "profile": "c04", "flavour": rng.choice(hist.FLAVOURS),
               "idconf": rng.choice(["default", "default", "callback", "subclass"]), "typed": rng.random() < 0.25,
               "steps": rng.choice([5, 10, 20, 40]), "hostile": True, "allow_unspec": False}


def run_shard(spec, res):
    if spec["kind"] == "sortmix":
        rng = rng_for(spec["seed"], "c04-sortmix-shard")
        for j in range(spec["count"]):
            run_case({"kind": "sortmix", "seed": rng.randrange(10**9), "deep": j % 3 != 0, "reverse": j % 2 == 1, "start": "tree" if j % 4 else "node",
                      "typed": j % 5 == 0}, res)
            if res.expired():
                break
        return
    if spec["kind"] == "one":
        for case in onestep_cases(spec["bound"], spec["typed_bound"], spec["i"], NSHARDS):
            run_case(case, res)
            if res.expired():
                res.count("exhaustive_cut")
                res.inconc("enumeration cut by time budget")
                return
    elif spec["kind"] == "two":
        for case in twostep_cases(spec["bound"], spec["typed_bound"], spec["i"], NSHARDS,
                                  full_bound=3 if spec["tier"] == "quick" else 4):
            run_case(case, res)
            if res.expired():
                res.count("exhaustive_cut")
                res.inconc("two-step enumeration cut by time budget")
                return
    else:
        for case in gen_hist_cases(spec):
            run_case(case, res)
            if res.expired():
                break


def summarize(total):
    return {"op_outcomes": {k[3:]: v for k, v in total.counters.items() if k.startswith("op:")},
            "findings_of_other_properties_seen": {k[16:]: v for k, v in total.counters.items() if k.startswith("context_finding:")}}
