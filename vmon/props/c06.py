"""C06 - traversals visit each node once in documented order and obey control signals.

Monitor: trace vs. definition.  The harness callback records the sequence of
nodes the real traversal hands out; the oracle is six independent definitions
of the orders (computed from the `children` lists only) filtered by the
skip/stop choice.
"""

from __future__ import annotations

import contextlib
import functools
import warnings

from .. import gen
from ..core import CaseTimeout, case_deadline, rng_for, short_tb

PROP = "C06"
LEVEL = "exploration"
RULE = ("case = (tree class, forest shape, start node or tree, iterator|visit, method, add_self, "
        "signal node, signal form); enumerated for all forests up to the tier's node bound, random deep/wide "
        "trees beyond; non-trivial = traversed branch has >= 3 nodes and is neither a pure chain nor flat "
        "for level/zigzag methods; distinct by case description")
ASSUMPTIONS = [
    "orders are defined from node.children lists read through the public API",
    "a visit() callback returning True, or the class object SelectBranch, is unspecified and not generated",
]
MECH = [
    "nutree.node:Node._iter_pre", "nutree.node:Node._iter_post", "nutree.node:Node._iter_level",
    "nutree.node:Node.iterator", "nutree.node:Node._visit_pre", "nutree.node:Node._visit_post",
    "nutree.node:Node._visit_level", "nutree.node:Node.visit", "nutree.tree:Tree.iterator",
    "nutree.tree:Tree.visit", "nutree.common:call_traversal_cb",
]
MIN_NONTRIVIAL = {"quick": 20000, "thorough": 200000}
EXHAUSTIVE = {"quick": True, "thorough": True}

ITER_METHODS = ["pre", "post", "level", "level_rtl", "zigzag", "zigzag_rtl"]
VISIT_METHODS = ["pre", "post", "level"]
# (a traversal callback has no "self" to keep or drop: SkipBranch(and_self=...) - the argument matters to filters only - is a
# skip like any other instance)
SKIP_FORMS = ["ret_skip_cls", "ret_skip_inst", "raise_skip_cls", "raise_skip_inst", "ret_skip_noself", "raise_skip_noself", "ret_skip_andself", "raise_skip_andself"]
STOP_FORMS = ["ret_false", "ret_stop_cls", "ret_stop_inst", "ret_stop_val", "raise_stop_cls", "raise_stop_val",
              "ret_stopiter_cls", "ret_stopiter_val", "raise_stopiter_cls", "raise_stopiter_val"]
FORMS = SKIP_FORMS + STOP_FORMS


# --------------------------------------------------------------------------
# independent definitions, over index forests
# --------------------------------------------------------------------------
class Shape:
    def __init__(self, f):
        self.f = f
        self.kids = {}  # idx -> list of child idx ; -1 = root
        self.par = {}
        cnt = [0]

        def rec(p, lst):
            self.kids[p] = []
            for k in lst:
                i = cnt[0]
                cnt[0] += 1
                self.kids[p].append(i)
                self.par[i] = p
                rec(i, k)

        rec(-1, f)
        self.n = cnt[0]

    def pre(self, s):
        out = []
        for c in self.kids[s]:
            out.append(c)
            out.extend(self.pre(c))
        return out

    def post(self, s):
        out = []
        for c in self.kids[s]:
            out.extend(self.post(c))
            out.append(c)
        return out

    def levels(self, s):
        lv = []
        cur = list(self.kids[s])
        while cur:
            lv.append(cur)
            cur = [c for x in cur for c in self.kids[x]]
        return lv

    def order(self, s, method, add_self):
        if method == "pre":
            seq = self.pre(s)
        elif method == "post":
            seq = self.post(s)
        else:
            seq = []
            for d, lv in enumerate(self.levels(s)):
                if method == "level":
                    rev = False
                elif method == "level_rtl":
                    rev = True
                elif method == "zigzag":
                    rev = d % 2 == 1
                elif method == "zigzag_rtl":
                    rev = d % 2 == 0
                else:
                    raise KeyError(method)
                seq.extend(reversed(lv) if rev else lv)
        if add_self and s != -1:
            seq = seq + [s] if method == "post" else [s] + seq
        return seq

    def descendants(self, s):
        return set(self.pre(s))

    def expected_visit(self, s, method, add_self, sig_at, form):
        """Expected callback trace and return value."""
        seq = self.order(s, method, add_self)
        if sig_at is None or sig_at not in seq:
            return seq, None
        if form in SKIP_FORMS:
            if method == "post":
                return seq, None
            drop = self.descendants(sig_at)
            return [x for x in seq if x not in drop], None
        cut = seq[: seq.index(sig_at) + 1]
        val = 41 if form.endswith("_val") else None
        return cut, val


@contextlib.contextmanager
def _passthrough():
    yield


def make_signal(form):
    from nutree import SkipBranch, StopTraversal

    kind, what = form.split("_", 1)
    obj = {
        "skip_cls": SkipBranch, "skip_inst": SkipBranch(), "false": False,
        "skip_noself": SkipBranch(and_self=False), "skip_andself": SkipBranch(and_self=True),
        "stop_cls": StopTraversal, "stop_inst": StopTraversal(), "stop_val": StopTraversal(41),
        "stopiter_cls": StopIteration, "stopiter_val": StopIteration(41),
    }[what]
    return kind, obj


# --------------------------------------------------------------------------
def build_tree(cls_name, f, lab="uniq"):
    from nutree import Tree
    from nutree.typed_tree import TypedTree

    if lab == "eq":
        # all nodes hold equal data (distinct ids): the traversal must tell nodes apart by identity
        label, did = (lambda i: "t"), (lambda i: f"id{i}")  # "t" is also the name of the tree
    else:
        label, did = (lambda i: f"n{i}"), None
    # node ids given by the application on every second node of the `eq` trees (node_id != id(node) there)
    nid = (lambda i: 900 + i if i % 2 == 0 else None) if lab == "eq" else None
    # the `eq` trees are also created level by level: the order of creation (registry order) is not the document order
    creation = "bfs" if lab == "eq" else "pre"
    if cls_name == "typed":
        t = TypedTree("t")
        nodes = gen.build(t, f, label, kind=lambda i: "kab"[i % 3] + "x", data_id=did, node_id=nid, creation=creation)
    else:
        t = Tree("t")
        nodes = gen.build(t, f, label, data_id=did, node_id=nid, creation=creation)
    return t, nodes


def run_case(case, res):
    if case.get("deep"):
        # trees deeper than the interpreter's default recursion limit: same cases, run with a large stack and a raised limit
        from ..core import run_with_deep_stack

        done, exc = run_with_deep_stack(lambda: _run_case(case, res))
        res.count("deep_cases")
        if not done:
            res.inconc("deep case did not finish")
        elif exc is not None:
            res.inconc(f"deep case: harness thread raised {type(exc).__name__}: {exc}")
        return
    return _run_case(case, res)


def deep_forest(rng, depth):
    """A spine of `depth` nodes with a few leaves hanging off it (before or after the spine child)."""
    root = []
    cur = root
    for i in range(depth):
        new = []
        r = rng.random()
        if r < 0.02:
            cur.append([])
            cur.append(new)
        elif r < 0.04:
            cur.append(new)
            cur.append([])
        else:
            cur.append(new)
        cur = new
    return root


def _run_case(case, res):
    from nutree import IterMethod

    f = gen.decode(case["f"])
    sh = Shape(f)
    t, nodes = build_tree(case.get("cls", "plain"), f, case.get("lab", "uniq"))
    start = case["start"]
    method = case["method"]
    add_self = case["add_self"]
    im = IterMethod(method)
    if case.get("prelude"):
        # refused calls and add/remove pairs first: they must leave nothing behind that a traversal could meet
        gen.refused_prelude(t, nodes, rng_for(case.get("pseed", 0), "c06-prelude", case["f"]), case.get("cls") == "typed")
    sobj = t if start == -1 else nodes[start]
    idx_of = {id(n): i for i, n in enumerate(nodes)}
    branch = sh.order(start, "pre", add_self)
    nontrivial = len(branch) >= 3 and (method in ("pre", "post") or (sh.levels(start) and max(map(len, sh.levels(start))) >= 2 and len(sh.levels(start)) >= 2))
    res.case(case, nontrivial=bool(nontrivial))

    def fail(msg, **kw):
        res.violation(case, msg, **kw)

    def struct():
        out = []

        def rec(h):
            ks = list(h.children)
            out.append([id(c) for c in ks])
            for c in ks:
                rec(c)

        rec(t)
        return out

    before_struct = struct()

    try:
        with case_deadline(20), warnings.catch_warnings():
            warnings.simplefilter("ignore")
            if case["mode"] == "iter":
                exp = sh.order(start, method, add_self)
                if start == -1:
                    got = list(t.iterator(im))
                else:
                    got = list(sobj.iterator(im, add_self=add_self))
                goti = [idx_of.get(id(n), "?") for n in got]
                res.count("iter_sequences")
                res.observe("iterator_sequences", [method, goti])
                if goti != exp:
                    fail(f"iterator({method}, add_self={add_self}) from {start}: got {goti}, expected {exp}")
                # an iterator that is abandoned half-way (next(), a `break`), or merely suspended while the tree is read by
                # other means, leaves no trace: child lists untouched at every moment, later traversals unaffected
                for k in sorted({1, 2, max(1, len(exp) // 2)}):
                    if k >= len(exp):
                        continue
                    it = t.iterator(im) if start == -1 else sobj.iterator(im, add_self=add_self)
                    part = [idx_of.get(id(next(it)), "?") for _ in range(k)]
                    res.count("suspended_iterators")
                    if part != exp[:k]:
                        fail(f"iterator({method}) first {k} items: {part}, expected {exp[:k]}")
                    if struct() != before_struct:
                        fail(f"while an iterator({method}, add_self={add_self}) from {start} is suspended after {k} items the tree's child lists are changed")
                        break
                    other = [idx_of.get(id(n), "?") for n in t]
                    if other != sh.order(-1, "pre", False):
                        fail(f"a pre-order walk made while an iterator({method}) is suspended gives {other}")
                        break
                    rest = [idx_of.get(id(n), "?") for n in it] if k == 1 else None
                    if rest is not None and part + rest != exp:
                        fail(f"iterator({method}) resumed after another walk: {part + rest}, expected {exp}")
                    del it
                    if struct() != before_struct:
                        fail(f"an abandoned iterator({method}, add_self={add_self}) from {start} (stopped after {k} items) left the child lists changed")
                        break
                if method == "pre":
                    # `for n in x` syntax is pre-order without self
                    g2 = [idx_of.get(id(n), "?") for n in sobj]
                    if g2 != sh.order(start, "pre", False):
                        fail(f"__iter__ from {start}: got {g2}")
            elif case["mode"] == "perm":
                # unordered / random: permutation of all nodes (tree only)
                got = [idx_of.get(id(n), "?") for n in t.iterator(im)]
                res.count("perm_sequences")
                if sorted(map(str, got)) != sorted(map(str, range(sh.n))):
                    fail(f"iterator({method}) is not a permutation: {got}")
            elif case["mode"] == "sysroot":
                # start node = the tree's system root: whatever the iterator yields for (method, add_self), visit() has to call
                # back in the same order, and a stop signal at the k-th callback ends it there
                root = t.system_root
                seq = [idx_of.get(id(n), "ROOT") for n in root.iterator(im, add_self=add_self)]
                kth = case.get("stop_at")
                trace = []

                def cb(node, memo):
                    trace.append(idx_of.get(id(node), "ROOT"))
                    if kth is not None and len(trace) == kth + 1:
                        from nutree import StopTraversal

                        return StopTraversal(41)
                    return None

                ret = root.visit(cb, add_self=add_self, method=im)
                res.count("sysroot_visits")
                exp = seq if kth is None or kth >= len(seq) else seq[: kth + 1]
                if trace != exp:
                    fail(f"system_root.visit({method}, add_self={add_self}, stop at callback #{kth}): trace {trace}, the iterator yields {seq}")
                elif kth is not None and kth < len(seq) and ret != 41:
                    fail(f"system_root.visit() returned {ret!r} after a StopTraversal(41) at callback #{kth}")
                if not add_self and seq != sh.order(-1, method, False):
                    fail(f"system_root.iterator({method}) yields {seq}, expected {sh.order(-1, method, False)}")
            elif case["mode"] == "memo_value":
                # the callbacks collect into the memo visit() made for them and hand it back as the stop value
                k = case["stop_at"]
                seq = sh.order(start, method, add_self)

                def cbm(node, memo):
                    memo.setdefault("seen", []).append(idx_of.get(id(node), "?"))
                    if len(memo["seen"]) == k + 1:
                        from nutree import StopTraversal

                        if case["raise"]:
                            raise StopTraversal(memo)
                        return StopTraversal(memo)

                ret = (t.visit(cbm, method=im) if start == -1 else sobj.visit(cbm, add_self=add_self, method=im))
                res.count("memo_as_stop_value")
                if k < len(seq) and (not isinstance(ret, dict) or ret.get("seen") != seq[: k + 1]):
                    fail(f"visit({method}) stopped at callback #{k} with StopTraversal(memo): returned {ret!r}, the memo held {seq[:k + 1]}")
            elif case["mode"] == "unsupported":
                # an entry point may refuse a method with NotImplementedError, or support it fully
                try:
                    if case["entry"] == "node_iter":
                        got = [idx_of.get(id(n), "?") for n in nodes[0].iterator(im, add_self=add_self)]
                        exp_set = sorted(map(str, sh.order(0, "pre", add_self)))
                        if sorted(map(str, got)) != exp_set:
                            fail(f"node.iterator({method}, add_self={add_self}) is supported but is not a permutation of the branch: {got}")
                        if method in ("random", "unordered"):
                            gr = [idx_of.get(id(n), "ROOT") for n in t.system_root.iterator(im)]
                            if sorted(map(str, gr)) != sorted(map(str, sh.order(-1, "pre", False))):
                                fail(f"system_root.iterator({method}) is supported but is not a permutation of the tree's nodes: {gr}")
                    else:
                        trace = []
                        st = -1 if start == -1 else start
                        (t if start == -1 else sobj).visit(lambda n, m: trace.append(idx_of.get(id(n), "?")), method=im)
                        if method in ("random", "unordered"):
                            if sorted(map(str, trace)) != sorted(map(str, sh.order(st, "pre", False))):
                                fail(f"visit({method}) is supported but is not a permutation: {trace}")
                        elif trace != sh.order(st, method, False):
                            fail(f"visit({method}) is supported but follows another order: {trace}, expected {sh.order(st, method, False)}")
                    res.count("unsupported_but_supported")
                except NotImplementedError:
                    res.count("unsupported_refused")
            else:  # visit
                sig = case.get("sig")
                sig_at = sig["at"] if sig else None
                form = sig["form"] if sig else None
                exp, expval = sh.expected_visit(start, method, add_self, sig_at, form)
                trace = []
                memos = []
                if form:
                    how, obj = make_signal(form)

                shape_i = (len(case["f"]) + (sig_at or 0) + len(method) + (1 if add_self else 0)) % 8

                def cb(node, memo):
                    trace.append(idx_of.get(id(node), "?"))
                    memos.append(memo)
                    if sig_at is not None and trace[-1] == sig_at:
                        if how == "raise":
                            if shape_i in (1, 4):
                                # the signal passes through the exit of a generator-based context manager on its way out
                                with _passthrough():
                                    raise obj
                            raise obj
                        return obj
                    return None

                # the callback is *called with two positional arguments*; what its parameters are named is the user's business
                def cb_other_names(n, m):
                    return cb(n, m)

                def cb_underscore(node, _):
                    return cb(node, _)

                def cb_varargs(*args):
                    return cb(*args)

                class _Obj:
                    def method(self, a_node, a_memo):
                        return cb(a_node, a_memo)

                class _Collector(list):
                    """A callable object that is *falsy* when handed in (an empty list-derived collector)."""

                    def __call__(self, nd, mm):
                        return cb(nd, mm)

                the_cb = [cb, cb_other_names, cb_underscore, cb_varargs, functools.partial(lambda extra, nd, mm: cb(nd, mm), "x"),
                          _Obj().method, cb, _Collector()][shape_i]
                res.count(f"callback_shape:{shape_i}")
                # the memo object is the caller's: given explicitly (also an empty list / dict) it is the object the callbacks get
                own_memo = [None, [], {}, [0], None][(shape_i + len(exp)) % 5]
                mkw = {} if own_memo is None else {"memo": own_memo}
                if start == -1:
                    ret = t.visit(the_cb, method=im, **mkw)
                else:
                    ret = sobj.visit(the_cb, add_self=add_self, method=im, **mkw)
                if own_memo is not None and memos and any(m is not own_memo for m in memos):
                    fail(f"visit(memo=<{type(own_memo).__name__} of length {len(own_memo)}>) passed another object to the callbacks: {type(memos[0]).__name__}")
                res.count("visit_traces")
                res.observe("callback_traces", [method, trace, repr(ret)])
                res.count(f"cell:{method}:{form}")
                if trace != exp:
                    fail(f"visit({method}, add_self={add_self}) from {start} signal {form}@{sig_at}: trace {trace}, expected {exp}")
                elif ret != expval:
                    fail(f"visit() returned {ret!r}, expected {expval!r} (signal {form}@{sig_at})")
                if memos and any(m is not memos[0] for m in memos):
                    fail("visit() passed different memo objects")
                # the signal object is the caller's and may be kept and used again (a module-level `FOUND = StopTraversal(x)`):
                # the same callback with the same signal object gives the same trace and the same value the second time
                if form:
                    trace1, ret1 = list(trace), ret
                    del trace[:], memos[:]
                    if start == -1:
                        ret2 = t.visit(the_cb, method=im, **mkw)
                    else:
                        ret2 = sobj.visit(the_cb, add_self=add_self, method=im, **mkw)
                    res.count("signal_objects_reused")
                    if trace != trace1 or ret2 != ret1:
                        fail(f"second visit({method}) with the same callback and the same signal object ({form}@{sig_at}): trace {trace} / returned {ret2!r}, "
                             f"the first time {trace1} / {ret1!r}")
            # a traversal is read-only: the child lists are untouched and a following pre-order
            # iteration of the same tree object still gives the definition
            if struct() != before_struct:
                fail(f"{case['mode']}({method}) modified the tree's child lists")
            else:
                again = [idx_of.get(id(n), "?") for n in t]
                if again != sh.order(-1, "pre", False):
                    fail(f"after {case['mode']}({method}) a pre-order iteration of the same tree gives {again}")
            res.count("readonly_checks")
    except CaseTimeout:
        res.inconc("case watchdog fired")
    except Exception:
        from ..core import exc_in_library

        if exc_in_library():
            fail("exception escaped from traversal: " + short_tb())
        else:
            res.inconc("harness error: " + short_tb())


def cases_for_shape(f, *, cls, all_forms, rng):
    sh = Shape(f)
    fc = gen.code(f)
    starts = [-1] + list(range(sh.n))
    for s in starts:
        for add_self in ([False] if s == -1 else [False, True]):
            for m in ITER_METHODS:
                yield {"cls": cls, "f": fc, "start": s, "method": m, "add_self": add_self, "mode": "iter"}
                if sh.n >= 2:
                    # all nodes hold equal data (and the tree's name equals it, too): nodes are told apart by identity only
                    yield {"cls": cls, "f": fc, "start": s, "method": m, "add_self": add_self, "mode": "iter", "lab": "eq"}
            for m in VISIT_METHODS:
                seq = sh.order(s, m, add_self)
                yield {"cls": cls, "f": fc, "start": s, "method": m, "add_self": add_self, "mode": "visit", "sig": None}
                for at in seq:
                    if sh.n >= 3:
                        yield {"cls": cls, "f": fc, "start": s, "method": m, "add_self": add_self, "mode": "visit", "lab": "eq",
                               "sig": {"at": at, "form": SKIP_FORMS[(at + len(seq)) % len(SKIP_FORMS)]}}
                    forms = FORMS if all_forms else [rng.choice(SKIP_FORMS), rng.choice(STOP_FORMS), rng.choice(FORMS)]
                    for form in forms:
                        yield {"cls": cls, "f": fc, "start": s, "method": m, "add_self": add_self, "mode": "visit",
                               "sig": {"at": at, "form": form}}
    if sh.n:
        for m in VISIT_METHODS:
            for add_self in (False, True):
                for stop_at in (None, 0, 1, sh.n - 1):
                    yield {"cls": cls, "f": fc, "start": -1, "method": m, "add_self": add_self, "mode": "sysroot", "stop_at": stop_at}
        for m in ("random", "unordered"):
            yield {"cls": cls, "f": fc, "start": -1, "method": m, "add_self": False, "mode": "perm"}
            yield {"cls": cls, "f": fc, "start": -1, "method": m, "add_self": False, "mode": "perm", "prelude": True, "pseed": sh.n}
        for m in ITER_METHODS:
            yield {"cls": cls, "f": fc, "start": -1, "method": m, "add_self": False, "mode": "iter", "prelude": True, "pseed": sh.n + 1}
            yield {"cls": cls, "f": fc, "start": -1, "method": m, "add_self": False, "mode": "unsupported", "entry": "node_iter"}
        for m in VISIT_METHODS:
            for st in (-1, 0):
                yield {"cls": cls, "f": fc, "start": st, "method": m, "add_self": st == 0, "mode": "memo_value", "stop_at": min(1, sh.n - 1), "raise": st == 0}
        for m in ("random", "unordered"):
            # node-level iterators for the order-free methods: refused, or a permutation of exactly the branch
            for add_self in (False, True):
                yield {"cls": cls, "f": fc, "start": -1, "method": m, "add_self": add_self, "mode": "unsupported", "entry": "node_iter"}
        for m in ("level_rtl", "zigzag", "zigzag_rtl", "random", "unordered"):
            yield {"cls": cls, "f": fc, "start": -1, "method": m, "add_self": False, "mode": "unsupported", "entry": "visit"}
            yield {"cls": cls, "f": fc, "start": 0, "method": m, "add_self": False, "mode": "unsupported", "entry": "visit"}


NSHARDS = 16


def shards(tier, seed):
    full, part = (6, 7) if tier == "quick" else (8, 9)
    out = []
    for i in range(NSHARDS):
        out.append({"name": f"enum{i}", "kind": "enum", "i": i, "full": full, "part": part,
                    "budget_s": 120 if tier == "quick" else 1500})
    nrand = 16 if tier == "quick" else 64
    for i in range(nrand):
        out.append({"name": f"rand{i}", "kind": "rand", "i": i, "count": 12 if tier == "quick" else 40,
                    "budget_s": 60 if tier == "quick" else 600})
    return out


def run_shard(spec, res):
    seed = spec["seed"]
    if spec["kind"] == "enum":
        k = 0
        for n in range(0, spec["part"] + 1):
            for f in gen.forests(n):
                k += 1
                if k % NSHARDS != spec["i"]:
                    continue
                rng = rng_for(seed, "c06", gen.code(f))
                typed = n <= (5 if spec["tier"] == "quick" else 6)
                for cls in (["plain", "typed"] if typed else ["plain"]):
                    for case in cases_for_shape(f, cls=cls, all_forms=(n <= spec["full"]), rng=rng):
                        run_case(case, res)
                if res.expired():
                    res.count("exhaustive_cut")
                    res.inconc("enumeration cut by time budget")
                    return
    else:
        rng = rng_for(seed, "c06-rand", spec["i"])
        # (a) trees deeper than the default recursion limit, (b) trees with a few hundred nodes
        for j in range(spec.get("deep", 1)):
            f = deep_forest(rng, rng.choice([1200, 2500]))
            fc = gen.code(f)
            n = gen.size(f)
            for m in ITER_METHODS:
                run_case({"cls": "plain", "f": fc, "start": -1, "method": m, "add_self": False, "mode": "iter", "deep": True}, res)
            st = rng.randrange(n // 2)
            run_case({"cls": "plain", "f": fc, "start": st, "method": rng.choice(ITER_METHODS), "add_self": True, "mode": "iter", "deep": True}, res)
            for m in VISIT_METHODS:
                run_case({"cls": "plain", "f": fc, "start": -1, "method": m, "add_self": False, "mode": "visit", "deep": True}, res)
                run_case({"cls": "plain", "f": fc, "start": -1, "method": m, "add_self": False, "mode": "visit", "deep": True,
                          "sig": {"at": rng.randrange(n), "form": rng.choice(FORMS)}}, res)
        for j in range(spec.get("big", 2)):
            f = gen.random_forest(rng, rng.randint(80, 400), style=rng.choice(["deep", "wide", "mixed", "chain"]))
            fc = gen.code(f)
            n = gen.size(f)
            cls = rng.choice(["plain", "typed"])
            for st in [-1] + rng.sample(range(n), 2):
                for m in ITER_METHODS:
                    run_case({"cls": cls, "f": fc, "start": st, "method": m, "add_self": st != -1 and rng.random() < 0.5, "mode": "iter"}, res)
                for m in VISIT_METHODS:
                    run_case({"cls": cls, "f": fc, "start": st, "method": m, "add_self": False, "mode": "visit",
                              "sig": rng.choice([None, {"at": rng.randrange(n), "form": rng.choice(FORMS)}])}, res)
        for j in range(spec["count"]):
            n = rng.randint(8, 14)
            f = gen.random_forest(rng, n, style=rng.choice(["deep", "wide", "mixed", "chain", "star"]))
            for case in cases_for_shape(f, cls=rng.choice(["plain", "typed"]), all_forms=False, rng=rng):
                run_case(case, res)
            if res.expired():
                break


def summarize(total):
    cells = {k[5:]: v for k, v in total.counters.items() if k.startswith("cell:")}
    return {"method_x_signal_cells": cells}
