#!/venv/bin/python
"""Regenerate MANIFEST.json from the modules present in vmon/props and tools/manifest_table.json."""
import importlib, json, os, sys
verif = os.path.dirname(os.path.dirname(os.path.abspath(__file__)))
sys.path.insert(0, verif)
table = json.load(open(os.path.join(verif, "tools", "manifest_table.json")))
props = [json.loads(l) for l in open(os.path.join(verif, "properties.jsonl"))]
checks, na = [], []
for p in props:
    pid = p["id"]
    row = table.get(pid, {})
    if os.path.exists(os.path.join(verif, "vmon", "props", pid.lower() + ".py")) and not row.get("not_applicable"):
        mod = importlib.import_module("vmon.props." + pid.lower())
        checks.append({
            "property_id": pid,
            "quick_cmd": f"./check {pid} --tier quick",
            "thorough_cmd": f"./check {pid} --tier thorough",
            "evidence_file": f"evidence/{pid}.json",
            "replay_cmd_template": f"./check {pid} --replay {{path}}",
            "engine": "vmon",
            "level_claimed": {"category": getattr(mod, "LEVEL", "exploration"), "text": row.get("text", ""), "design_ref": row.get("design_ref", f"DESIGN.md section 4, {pid}")},
            "level_note": row.get("note", ""),
            "technique": row.get("technique", "runtime monitoring"),
        })
    else:
        na.append({"property_id": pid, "reason": row.get("not_applicable", "check not built yet in this session; see DESIGN.md section 4 for the planned monitor")})
man = {
    "version": 1,
    "setup_cmd": "/venv/bin/python -c \"import sys; assert sys.version_info >= (3,12); import sys; sys.path.insert(0,'/repo'); import nutree\"",
    "hooks": {
        "guard": "MAR10_NUTREE_VERIF",
        "enable": "no source hooks are needed: all monitors attach from the harness (public API, class-attribute wrappers, a proxy assigned to tree._lock, sys.monitoring); checks export MAR10_NUTREE_VERIF=1 for uniformity",
        "baseline_off_cmd": "cd /repo && /venv/bin/python -m pytest -ra -q -p no:cacheprovider --timeout=900 --continue-on-collection-errors",
        "source_commits": [],
        "add_only": True,
    },
    "engines": [{"name": "vmon", "path": "vmon/", "serves_properties": [c["property_id"] for c in checks],
                 "kind_free_text": "runtime monitors: real nutree code driven by generated workloads in sharded subprocesses; oracles are deterministic functions of the observed events/state; sys.monitoring line probe proves the anchored mechanism was executed"}],
    "checks": checks,
    "not_applicable": na,
    "notes": "exit 0 held / 1 VIOLATION / 2 INCONCLUSIVE (never folded into pass). Known findings: KNOWN_FINDINGS.txt. Seeds: VERIF_SEED; tier: VERIF_TIER or --tier.",
}
with open(os.path.join(verif, "MANIFEST.json"), "w") as fp:
    json.dump(man, fp, indent=1)
import subprocess
subprocess.run(["python3-vt","-c","import json,jsonschema,sys; jsonschema.validate(json.load(open(sys.argv[1])), json.load(open('/root/.vp/MANIFEST.schema.json')))", os.path.join(verif,"MANIFEST.json")], check=True)
print("MANIFEST ok:", len(checks), "checks,", len(na), "not applicable")
