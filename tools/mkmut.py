#!/venv/bin/python
"""tools/mkmut.py <name> <file-rel-to-repo> <old> <new> [<file> <old> <new> ...]  -> mutants/<name>.diff"""
import difflib, sys, os
name = sys.argv[1]
args = sys.argv[2:]
out = ""
for i in range(0, len(args), 3):
    rel, old, new = args[i:i+3]
    src = open(os.path.join("/repo", rel)).read()
    old = old.encode().decode("unicode_escape"); new = new.encode().decode("unicode_escape")
    if src.count(old) != 1:
        print(f"{name}: pattern occurs {src.count(old)} times in {rel}"); sys.exit(1)
    dst = src.replace(old, new)
    out += "".join(difflib.unified_diff(src.splitlines(1), dst.splitlines(1), f"a/{rel}", f"b/{rel}"))
open(os.path.join(os.path.dirname(os.path.dirname(os.path.abspath(__file__))), "mutants", name + ".diff"), "w").write(out)
print("wrote", name)
