#!/venv/bin/python
"""tools/eval_seeded.py <dir with m*.diff, m*_demo.py, m*.md> <Cxx> [--also Cyy,Czz] [--tier quick]

Confirms each seeded change independently (applies to a scratch copy of /repo, pinned tests
must pass, demo must fail with the change and pass without), runs the property's check against
the scratch copy and files the change under /verif/seeded/<Cxx>-<name>/ with a meta.json.
"""
import argparse, glob, json, os, shutil, subprocess, sys, tempfile, time

ap = argparse.ArgumentParser()
ap.add_argument("src")
ap.add_argument("prop")
ap.add_argument("--also", default="")
ap.add_argument("--tier", default="quick")
ap.add_argument("--only", default="")
ap.add_argument("--prefix", default="", help="name prefix inside seeded/, e.g. r2")
a = ap.parse_args()
verif = os.path.dirname(os.path.dirname(os.path.abspath(__file__)))
PY = "/venv/bin/python"


def run(cmd, **kw):
    return subprocess.run(cmd, capture_output=True, text=True, **kw)


for diff in sorted(glob.glob(os.path.join(a.src, "m*.diff"))):
    name = os.path.basename(diff)[:-5]
    if a.only and name not in a.only.split(","):
        continue
    demo = os.path.join(a.src, f"{name}_demo.py")
    note = os.path.join(a.src, f"{name}.md")
    tmp = tempfile.mkdtemp(prefix="vseed-")
    meta = {"property": a.prop, "name": a.prefix + name, "source": "independent sub-agent (saw only the property text and a scratch worktree)"}
    try:
        clean = os.path.join(tmp, "clean")
        mut = os.path.join(tmp, "mut")
        ign = shutil.ignore_patterns(".git", "__pycache__", "*.pyc", "docs", ".pytest_cache", "out")
        shutil.copytree("/repo", clean, ignore=ign)
        shutil.copytree("/repo", mut, ignore=ign)
        r = run(["patch", "-p1", "-s", "-d", mut, "-i", os.path.abspath(diff)])
        meta["applies"] = r.returncode == 0
        if r.returncode:
            print(f"{a.prop} {name}: PATCH DOES NOT APPLY: {r.stdout[-300:]}")
            continue
        r = run([PY, "-m", "pytest", "-q", "-p", "no:cacheprovider", "-o", "addopts=", "--timeout=900", "tests"], cwd=mut,
                env={**os.environ, "PYTHONPATH": mut})
        last = [l for l in r.stdout.strip().splitlines() if "passed" in l or "failed" in l or "error" in l][-1:] or [r.stdout[-200:]]
        meta["tests_with_change"] = last[0]
        tests_ok = r.returncode == 0 and "72 passed" in last[0]
        meta["tests_pass"] = tests_ok
        if os.path.exists(demo):
            r1 = run([PY, demo, mut], timeout=300)
            r0 = run([PY, demo, clean], timeout=300)
            meta["demo_fails_with_change"] = r1.returncode != 0
            meta["demo_passes_without"] = r0.returncode == 0
            meta["demo_output_with_change"] = (r1.stdout + r1.stderr)[-400:]
        else:
            meta["demo_fails_with_change"] = meta["demo_passes_without"] = None
        confirmed = tests_ok and meta["demo_fails_with_change"] and meta["demo_passes_without"]
        meta["confirmed"] = bool(confirmed)
        results = {}
        for p in [a.prop] + [x for x in a.also.split(",") if x]:
            t0 = time.time()
            r = run([os.path.join(verif, "check"), p, "--tier", a.tier, "--no-evidence"], env={**os.environ, "VMON_REPO": mut})
            verdict = {0: "MISSED", 1: "CAUGHT", 2: "INCONCLUSIVE"}.get(r.returncode, f"rc={r.returncode}")
            first = next((l.strip() for l in r.stdout.splitlines() if l.startswith("  ")), "")
            results[p] = {"verdict": verdict, "tier": a.tier, "first_message": first[:300], "wall_s": round(time.time() - t0, 1)}
        meta["checks"] = results
        meta["what_was_run"] = (f"patch applied to a scratch copy of /repo ({run(['git','-C','/repo','rev-parse','--short','HEAD']).stdout.strip()}); "
                                f"pytest tests (72 must pass); demo with/without; ./check <id> --tier {a.tier} with VMON_REPO=<scratch copy>")
        if os.path.exists(note):
            meta["needs_to_manifest"] = open(note).read()[:1500]
        print(f"{a.prop} {name}: confirmed={meta['confirmed']} tests={meta['tests_with_change']!r} demo_fail={meta['demo_fails_with_change']} "
              f"demo_clean_ok={meta['demo_passes_without']} -> " + ", ".join(f"{p}:{v['verdict']}" for p, v in results.items()))
        if confirmed:
            dst = os.path.join(verif, "seeded", f"{a.prop}-{a.prefix}{name}")
            os.makedirs(dst, exist_ok=True)
            shutil.copy(diff, os.path.join(dst, "patch.diff"))
            shutil.copy(demo, os.path.join(dst, "demo.py"))
            if os.path.exists(note):
                shutil.copy(note, os.path.join(dst, "notes.md"))
            with open(os.path.join(dst, "meta.json"), "w") as fp:
                json.dump(meta, fp, indent=1)
    finally:
        shutil.rmtree(tmp, ignore_errors=True)
