#!/venv/bin/python
"""tools/split_hunks.py <patch.diff> <outdir>: writes one patch per hunk (h0.diff, h1.diff, ...)."""
import os, re, sys
src, out = sys.argv[1], sys.argv[2]
os.makedirs(out, exist_ok=True)
lines = open(src).read().split("\n")
files = []  # (header lines, [hunks])
cur = None
i = 0
while i < len(lines):
    l = lines[i]
    if l.startswith("--- ") and i + 1 < len(lines) and lines[i + 1].startswith("+++ "):
        cur = ([l, lines[i + 1]], [])
        files.append(cur)
        i += 2
        continue
    if l.startswith("@@") and cur is not None:
        h = [l]
        i += 1
        while i < len(lines) and not lines[i].startswith("@@") and not (lines[i].startswith("--- ") and i + 1 < len(lines) and lines[i + 1].startswith("+++ ")) and not lines[i].startswith("diff --git"):
            h.append(lines[i])
            i += 1
        while h and h[-1] == "":
            h.pop()
        cur[1].append(h)
        continue
    i += 1
k = 0
for hdr, hunks in files:
    for h in hunks:
        with open(os.path.join(out, f"h{k}.diff"), "w") as fp:
            fp.write("\n".join(hdr + h) + "\n")
        k += 1
print(k)
