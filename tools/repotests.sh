#!/bin/sh
# Runs the pinned suite of /repo (guard off) and prints pass/fail counts.
cd "${1:-/repo}" || exit 2
out=$(mktemp)
env -u MAR10_NUTREE_VERIF /venv/bin/python -m pytest -ra -q -p no:cacheprovider --timeout=900 --continue-on-collection-errors --junitxml="$out" >/dev/null 2>&1
/venv/bin/python - "$out" <<'P'
import sys, xml.etree.ElementTree as ET
r = ET.parse(sys.argv[1]).getroot()
ts = r if r.tag == "testsuite" else r[0]
tot = int(ts.get("tests")); f = int(ts.get("failures")) + int(ts.get("errors")); sk = int(ts.get("skipped"))
print(f"passed={tot-f-sk} failed={f} skipped={sk}")
for tc in r.iter("testcase"):
    if tc.find("failure") is not None or tc.find("error") is not None:
        print("  FAIL", tc.get("classname"), tc.get("name"))
sys.exit(1 if f or tot-f-sk < 72 else 0)
P
rc=$?
rm -f "$out"
exit $rc
