#!/venv/bin/python
"""Regenerates the seeded-change table inside DESIGN.md (between the MATRIX markers) from seeded/*/meta.json."""
import glob, json, os
verif = os.path.dirname(os.path.dirname(os.path.abspath(__file__)))
rows = []
n_caught = n_other = n_neutral = n_outside = n_open = 0
for mf in sorted(glob.glob(os.path.join(verif, "seeded", "*", "meta.json"))):
    m = json.load(open(mf))
    note = (m.get("needs_to_manifest") or "").strip().splitlines()
    first = next((l.strip("# *-").strip() for l in note if l.strip()), "")
    prop = m["property"]
    own = m.get("checks", {}).get(prop, {}).get("verdict", "?")
    parts = []
    for p, v in m.get("checks", {}).items():
        verdict = v["verdict"].lower()
        if p == prop and not verdict.startswith("caught"):
            if m.get("outside_property_note"):
                verdict = "silent (outside what the property demands, DESIGN section 6)"
            elif m.get("neutralised_by"):
                verdict = f"silent (harmless since fix {m['neutralised_by']})"
            elif m.get("attribution_note"):
                verdict = "silent (breaks another property by its statement)"
        parts.append(f"{p}: {verdict}")
    rows.append(f"| {os.path.basename(os.path.dirname(mf))} | {first[:110]} | {', '.join(parts)} |")
    others = [p for p, v in m.get("checks", {}).items() if p != prop and v["verdict"] == "CAUGHT"]
    if own == "CAUGHT":
        n_caught += 1
    elif m.get("outside_property_note"):
        n_outside += 1
    elif m.get("neutralised_by"):
        n_neutral += 1
    elif m.get("attribution_note") and others:
        n_other += 1
    else:
        n_open += 1
table = "| change | what it is (first line of the agent's note) | result (own property first) |\n|---|---|---|\n" + "\n".join(rows)
table += (f"\n\n{len(rows)} confirmed changes; {n_caught} caught by the quick check of their own property, {n_other} caught by the check of the "
          f"property they break by its statement, {n_outside} outside what the property demands (section 6; the checks have to stay silent), "
          f"{n_neutral} harmless since a repair, {n_open} open.\n")
p = os.path.join(verif, "DESIGN.md")
s = open(p).read()
a = s.index("<!-- MATRIX:BEGIN -->") + len("<!-- MATRIX:BEGIN -->")
b = s.index("<!-- MATRIX:END -->")
open(p, "w").write(s[:a] + "\n" + table + "\n" + s[b:])
print(len(rows), "rows;", n_caught, "caught by own check;", n_open, "open")
