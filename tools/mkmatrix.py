#!/venv/bin/python
"""Regenerates the seeded-change table inside DESIGN.md (between the MATRIX markers) from seeded/*/meta.json."""
import glob, json, os
verif = os.path.dirname(os.path.dirname(os.path.abspath(__file__)))
rows = []
for mf in sorted(glob.glob(os.path.join(verif, "seeded", "*", "meta.json"))):
    m = json.load(open(mf))
    note = (m.get("needs_to_manifest") or "").strip().splitlines()
    first = next((l.strip("# *-").strip() for l in note if l.strip()), "")
    checks = ", ".join(f"{p}: {v['verdict'].lower()}" for p, v in m.get("checks", {}).items())
    rows.append(f"| {os.path.basename(os.path.dirname(mf))} | {first[:110]} | {checks} |")
caught = sum(1 for r in rows if f": caught" in r.split("|")[3].split(",")[0])
other = sum(1 for r in rows if ": caught" not in r.split("|")[3].split(",")[0] and ": caught" in r.split("|")[3])
silent = sum(1 for r in rows if ": silent" in r.split("|")[3].split(",")[0])
table = "| change | what it is (first line of the agent's note) | result (own property first) |\n|---|---|---|\n" + "\n".join(rows)
table += (f"\n\n{len(rows)} confirmed changes; {caught} caught by the quick check of their own property, {other} caught by the check of the "
          f"property they break by its statement (see the note below the round-5 table), {silent} harmless since a repair.\n")
p = os.path.join(verif, "DESIGN.md")
s = open(p).read()
a = s.index("<!-- MATRIX:BEGIN -->") + len("<!-- MATRIX:BEGIN -->")
b = s.index("<!-- MATRIX:END -->")
open(p, "w").write(s[:a] + "\n" + table + "\n" + s[b:])
print(len(rows), "rows;", caught, "caught by own check")
