#!/venv/bin/python
"""tools/argcov.py [Cxx ...] - which value classes every parameter of every nutree function received from the workloads
of the quick tier (see vmon/argcov.py).  Prints, per public function, the parameters with the classes seen; parameters of
documented functions that only ever saw one class are marked '<<'."""
import glob, json, os, shutil, subprocess, sys, tempfile
verif = os.path.dirname(os.path.dirname(os.path.abspath(__file__)))
props = [a for a in sys.argv[1:] if not a.startswith("--")] or [f"C{i:02d}" for i in range(1, 21)]
tmp = tempfile.mkdtemp(prefix="argcov-")
for p in props:
    subprocess.run([os.path.join(verif, "check"), p, "--no-evidence"], capture_output=True, text=True,
                   env={**os.environ, "VMON_ARGCOV": os.path.join(tmp, p)})
tot = {}
for f in glob.glob(os.path.join(tmp, "*")):
    for fn, d in json.load(open(f)).items():
        for prm, cl in d.items():
            tot.setdefault(fn, {}).setdefault(prm, set()).update(cl)
shutil.rmtree(tmp, ignore_errors=True)
for fn in sorted(tot):
    if "<locals>" in fn or "<lambda>" in fn or "<listcomp>" in fn:
        continue
    print(fn)
    for prm, cl in tot[fn].items():
        print(f"    {prm:14s} {' '.join(sorted(cl))}{'   <<' if len(cl) == 1 else ''}")
