#!/venv/bin/python
"""tools/uncovered.py [--tier quick] [Cxx ...] - union of the nutree lines executed by the checks' workloads and the
executable lines that no workload reached (where a change could hide from every monitor)."""
import dis, json, os, subprocess, sys, tempfile
verif = os.path.dirname(os.path.dirname(os.path.abspath(__file__)))
repo = os.environ.get("VMON_REPO", "/repo")
args = [a for a in sys.argv[1:] if not a.startswith("--")]
tier = "thorough" if "--thorough" in sys.argv else "quick"
props = args or [f"C{i:02d}" for i in range(1, 21)]
hit = {}
tmp = tempfile.mkdtemp()
for p in props:
    out = os.path.join(tmp, p + ".json")
    subprocess.run([os.path.join(verif, "check"), p, "--tier", tier, "--no-evidence", "--dump-lines", out], capture_output=True, text=True)
    if os.path.exists(out):
        for f, ls in json.load(open(out)).items():
            hit.setdefault(f, set()).update(ls)
def exe_lines(code, acc):
    if code.co_flags & 0x1:  # function bodies only: module and class bodies run at import time, before the probe starts
        for _, l in dis.findlinestarts(code):
            if l and l != code.co_firstlineno:
                acc.add(l)
    for c in code.co_consts:
        if hasattr(c, "co_code"):
            exe_lines(c, acc)
tot = miss = 0
for fn in sorted(os.listdir(os.path.join(repo, "nutree"))):
    if not fn.endswith(".py"):
        continue
    src = open(os.path.join(repo, "nutree", fn)).read()
    acc = set()
    exe_lines(compile(src, fn, "exec"), acc)
    lines = src.splitlines()
    un = sorted(l for l in acc if l not in hit.get(fn, ()))
    tot += len(acc); miss += len(un)
    print(f"== {fn}: {len(acc) - len(un)}/{len(acc)} executable lines reached")
    for l in un:
        print(f"   {l:5d}: {lines[l - 1].rstrip()[:110]}")
print(f"total: {tot - miss}/{tot}")
