#!/venv/bin/python
"""Re-runs the own-property quick check for every kept seeded change and prints regressions."""
import glob, json, os, subprocess, sys
verif = os.path.dirname(os.path.dirname(os.path.abspath(__file__)))
only = sys.argv[1:]
bad = 0
for d in sorted(glob.glob(os.path.join(verif, "seeded", "*"))):
    meta = json.load(open(os.path.join(d, "meta.json")))
    prop = meta["property"]
    if only and prop not in only:
        continue
    r = subprocess.run([os.path.join(verif, "tools", "mutant.py"), os.path.join(d, "patch.diff"), prop], capture_output=True, text=True)
    line = (r.stdout.strip().splitlines() or ["?"])[-1]
    verdict = line.split()[0]
    meta.setdefault("checks", {}).setdefault(prop, {})["verdict"] = verdict
    meta["checks"][prop]["first_message"] = " ".join(line.split()[3:])[:300]
    json.dump(meta, open(os.path.join(d, "meta.json"), "w"), indent=1)
    if verdict != "CAUGHT":
        bad += 1
    print(os.path.basename(d), verdict, flush=True)
print("not caught:", bad)
