#!/venv/bin/python
"""Re-runs the own-property quick check for every kept seeded change and prints regressions."""
import glob, json, os, subprocess, sys
verif = os.path.dirname(os.path.dirname(os.path.abspath(__file__)))
only = sys.argv[1:]
bad = 0
for d in sorted(glob.glob(os.path.join(verif, "seeded", "*"))):
    meta = json.load(open(os.path.join(d, "meta.json")))
    prop = meta["property"]
    if only and prop not in only:
        continue
    r = subprocess.run([os.path.join(verif, "tools", "mutant.py"), os.path.join(d, "patch.diff"), prop], capture_output=True, text=True)
    line = (r.stdout.strip().splitlines() or ["?"])[-1]
    verdict = line.split()[0]
    if meta.get("outside_property_note"):
        ok = verdict == "MISSED"
        if ok:
            meta["checks"][prop]["verdict"] = "SILENT (outside what the property demands: " + meta["outside_property_note"].split(" (DESIGN")[0][:160] + ")"
        json.dump(meta, open(os.path.join(d, "meta.json"), "w"), indent=1)
        print(os.path.basename(d), "SILENT-BY-LEDGER" if ok else f"{verdict} (listed as outside the property)", flush=True)
        continue
    if meta.get("neutralised_by"):
        # the change needs a defect that was repaired since: it no longer breaks the property, the check must stay silent
        ok = verdict == "MISSED"
        meta["checks"][prop]["verdict"] = f"SILENT (change is harmless since fix {meta['neutralised_by']}; was CAUGHT before)" if ok else verdict
        json.dump(meta, open(os.path.join(d, "meta.json"), "w"), indent=1)
        print(os.path.basename(d), "SILENT-AS-EXPECTED" if ok else f"UNEXPECTED {verdict}", flush=True)
        bad += 0 if ok else 1
        continue
    also = [p for p in meta.get("checks", {}) if p != prop and meta["checks"][p].get("verdict") == "CAUGHT"]
    if verdict != "CAUGHT" and meta.get("attribution_note") and also:
        # statement-wise a break of another property: that check has to catch it
        r2 = subprocess.run([os.path.join(verif, "tools", "mutant.py"), os.path.join(d, "patch.diff"), also[0]], capture_output=True, text=True)
        v2 = ((r2.stdout.strip().splitlines() or ["?"])[-1]).split()[0]
        meta["checks"][also[0]]["verdict"] = v2
        meta["checks"].setdefault(prop, {})["verdict"] = verdict
        json.dump(meta, open(os.path.join(d, "meta.json"), "w"), indent=1)
        print(os.path.basename(d), f"{verdict} by {prop} (see attribution_note), {v2} by {also[0]}", flush=True)
        bad += 0 if v2 == "CAUGHT" else 1
        continue
    meta.setdefault("checks", {}).setdefault(prop, {})["verdict"] = verdict
    meta["checks"][prop]["first_message"] = " ".join(line.split()[3:])[:300]
    json.dump(meta, open(os.path.join(d, "meta.json"), "w"), indent=1)
    if verdict != "CAUGHT":
        bad += 1
    print(os.path.basename(d), verdict, flush=True)
print("not caught:", bad)
