#!/venv/bin/python
"""tools/mutant.py [--tests] [--tier quick] <patch.diff> <Cxx> [<Cyy> ...]

Applies a patch to a scratch copy of /repo (never to /repo itself), optionally
runs the pinned test-suite there, then runs the named checks against the copy
(VMON_REPO) without touching evidence/.  The scratch copy is removed afterwards.
Prints one line per check: CAUGHT / MISSED / INCONCLUSIVE.
"""
import argparse, os, shutil, subprocess, sys, tempfile

ap = argparse.ArgumentParser()
ap.add_argument("--tests", action="store_true")
ap.add_argument("--tier", default="quick")
ap.add_argument("--seed", default="0")
ap.add_argument("--reverse", action="store_true", help="apply the patch in reverse (re-introduce a fixed defect)")
ap.add_argument("-v", action="store_true")
ap.add_argument("patch")
ap.add_argument("props", nargs="+")
a = ap.parse_args()
verif = os.path.dirname(os.path.dirname(os.path.abspath(__file__)))
tmp = tempfile.mkdtemp(prefix="vmut-")
rc_all = 0
try:
    dst = os.path.join(tmp, "repo")
    shutil.copytree("/repo", dst, ignore=shutil.ignore_patterns(".git", "__pycache__", "*.pyc", "docs", ".pytest_cache"))
    cmd = ["patch", "-p1", "-s", "-d", dst, "-i", os.path.abspath(a.patch)] + (["-R"] if a.reverse else [])
    r = subprocess.run(cmd, capture_output=True, text=True)
    if r.returncode:
        print("PATCH FAILED", r.stdout, r.stderr); sys.exit(3)
    if a.tests:
        r = subprocess.run(["/venv/bin/python", "-m", "pytest", "-q", "-x", "-p", "no:cacheprovider", "--timeout=900"], cwd=dst,
                           capture_output=True, text=True, env={**os.environ, "PYTHONPATH": dst})
        print("TESTS:", r.stdout.strip().splitlines()[-1] if r.stdout.strip() else r.stderr[-300:])
    for p in a.props:
        r = subprocess.run([os.path.join(verif, "check"), p, "--tier", a.tier, "--seed", a.seed, "--no-evidence"],
                           capture_output=True, text=True, env={**os.environ, "VMON_REPO": dst})
        verdict = {0: "MISSED", 1: "CAUGHT", 2: "INCONCLUSIVE"}.get(r.returncode, f"rc={r.returncode}")
        first = next((l for l in r.stdout.splitlines() if l.startswith("  ")), "")
        print(f"{verdict} {p} {os.path.basename(a.patch)} {first.strip()[:200]}")
        if a.v: print(r.stdout[-3000:], r.stderr[-2000:])
finally:
    shutil.rmtree(tmp, ignore_errors=True)
